#!/bin/sh
# Build the monitor harness once (offline). Every check rebuilds incrementally from /repo's working tree.
set -e
HERE=$(cd "$(dirname "$0")" && pwd)
cd "$HERE/harness"
ln -sfn "${VERIF_REPO:-/repo}" .repo
[ -f Cargo.lock ] || cp /repo/Cargo.lock Cargo.lock
CARGO_NET_OFFLINE=true cargo build --release --offline --bin check
# self-test of the reference models (RFC 3986 section 5.4 examples, strict parsers)
CARGO_NET_OFFLINE=true cargo test --release --offline --lib >/dev/null 2>&1 || { echo "reference model self-test failed"; exit 1; }
mkdir -p "$HERE/evidence" "$HERE/replays"
echo "setup ok"
