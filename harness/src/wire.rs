//! Reference models, written from the RFCs / the property statements. They share no
//! code with ureq-proto (nor with httparse / url): the oracles compare the crate's
//! observable behaviour against these.

use crate::rng::Rng;

// =====================================================================================
// strict request head parser
// =====================================================================================

#[derive(Debug, Clone, PartialEq)]
pub struct ParsedHead {
    pub method: String,
    pub target: String,
    pub version: String,
    /// (name exactly as on the wire, value bytes)
    pub headers: Vec<(String, Vec<u8>)>,
    pub len: usize,
    /// end offsets of the lines: request line, each header line, the empty line
    pub units: Vec<usize>,
}

fn is_tchar(c: u8) -> bool {
    c.is_ascii_alphanumeric() || b"!#$%&'*+-.^_`|~".contains(&c)
}

/// Accepts only `METHOD SP target SP HTTP/d.d CRLF (name ":" SP value CRLF)* CRLF`
/// and nothing after it.
pub fn parse_request_head_strict(b: &[u8]) -> Result<ParsedHead, String> {
    let mut lines: Vec<(usize, usize)> = Vec::new(); // (start, end-exclusive of CRLF)
    let mut p = 0usize;
    let mut end_of_head = None;
    while p < b.len() {
        let mut q = p;
        loop {
            if q + 1 >= b.len() {
                return Err(format!("unterminated line starting at {}", p));
            }
            if b[q] == b'\n' {
                return Err(format!("bare LF at {}", q));
            }
            if b[q] == b'\r' {
                if b[q + 1] == b'\n' {
                    break;
                }
                return Err(format!("bare CR at {}", q));
            }
            q += 1;
        }
        if q == p {
            end_of_head = Some(q + 2);
            break;
        }
        lines.push((p, q));
        p = q + 2;
    }
    let len = end_of_head.ok_or_else(|| "no terminating empty line".to_string())?;
    if len != b.len() {
        return Err(format!("{} bytes after the end of the head", b.len() - len));
    }
    if lines.is_empty() {
        return Err("no request line".into());
    }
    let rl = &b[lines[0].0..lines[0].1];
    let parts: Vec<&[u8]> = rl.split(|c| *c == b' ').collect();
    if parts.len() != 3 {
        return Err(format!("request line has {} space separated parts", parts.len()));
    }
    if parts[0].is_empty() || !parts[0].iter().all(|c| is_tchar(*c)) {
        return Err("bad method token".into());
    }
    if parts[1].is_empty() || parts[1].iter().any(|c| *c <= 0x20 || *c == 0x7f) {
        return Err("bad request target".into());
    }
    let v = parts[2];
    if !(v.len() == 8 && v.starts_with(b"HTTP/") && v[5].is_ascii_digit() && v[6] == b'.' && v[7].is_ascii_digit()) {
        return Err(format!("bad version token {:?}", String::from_utf8_lossy(v)));
    }
    let mut headers = Vec::new();
    let mut units = vec![lines[0].1 + 2];
    for (s, e) in &lines[1..] {
        let l = &b[*s..*e];
        let colon = l.iter().position(|c| *c == b':').ok_or_else(|| "header line without colon".to_string())?;
        let name = &l[..colon];
        if name.is_empty() || !name.iter().all(|c| is_tchar(*c)) {
            return Err("bad header name".into());
        }
        if l.get(colon + 1) != Some(&b' ') {
            return Err("header colon not followed by one space".into());
        }
        let value = &l[colon + 2..];
        headers.push((String::from_utf8_lossy(name).to_string(), value.to_vec()));
        units.push(e + 2);
    }
    // the empty line is a line of its own
    units.push(len);
    Ok(ParsedHead {
        method: String::from_utf8_lossy(parts[0]).to_string(),
        target: String::from_utf8_lossy(parts[1]).to_string(),
        version: String::from_utf8_lossy(v).to_string(),
        headers,
        len,
        units,
    })
}

// =====================================================================================
// strict chunked decoder (for what the client emits)
// =====================================================================================

#[derive(Debug, Clone, PartialEq, Default)]
pub struct Dechunked {
    pub data: Vec<u8>,
    pub chunk_sizes: Vec<usize>,
    pub terminated: bool,
}

/// Accepts exactly `(hex CRLF data CRLF)* [ "0" CRLF CRLF ]` with non-empty chunks,
/// and nothing after the terminator. Anything else (a partial chunk, a zero chunk
/// that is not the terminator, bytes after the terminator) is an error.
pub fn decode_chunked_strict(b: &[u8]) -> Result<Dechunked, String> {
    let mut out = Dechunked::default();
    let mut p = 0usize;
    while p < b.len() {
        // size line
        let mut q = p;
        while q < b.len() && b[q].is_ascii_hexdigit() {
            q += 1;
        }
        if q == p {
            return Err(format!("expected hex digits at offset {}", p));
        }
        if q - p > 16 {
            return Err("size line too long".into());
        }
        if b.get(q) != Some(&b'\r') || b.get(q + 1) != Some(&b'\n') {
            return Err(format!("size line at {} not terminated by CRLF", p));
        }
        let size = usize::from_str_radix(std::str::from_utf8(&b[p..q]).unwrap(), 16).map_err(|e| e.to_string())?;
        p = q + 2;
        if size == 0 {
            if b.len() - p < 2 || &b[p..p + 2] != b"\r\n" {
                return Err(format!("zero chunk at {} not followed by CRLF", q));
            }
            p += 2;
            out.terminated = true;
            if p != b.len() {
                return Err(format!("{} bytes after the terminating chunk", b.len() - p));
            }
            return Ok(out);
        }
        if b.len() - p < size + 2 {
            return Err(format!("chunk of {} at {} is incomplete", size, p));
        }
        out.data.extend_from_slice(&b[p..p + size]);
        out.chunk_sizes.push(size);
        p += size;
        if &b[p..p + 2] != b"\r\n" {
            return Err(format!("chunk data not followed by CRLF at {}", p));
        }
        p += 2;
    }
    Ok(out)
}

// =====================================================================================
// response rendering from a structured description (ground truth by construction)
// =====================================================================================

#[derive(Debug, Clone)]
pub struct Field {
    pub name: String,
    pub value: Vec<u8>,
    pub lead: &'static str,
    pub trail: &'static str,
}

impl Field {
    pub fn new(name: &str, value: &[u8]) -> Field {
        Field {
            name: name.to_string(),
            value: value.to_vec(),
            lead: " ",
            trail: "",
        }
    }
}

#[derive(Debug, Clone)]
pub struct RespHead {
    pub http10: bool,
    pub status: u16,
    pub reason: Vec<u8>,
    pub fields: Vec<Field>,
}

impl RespHead {
    pub fn new(http10: bool, status: u16) -> RespHead {
        RespHead {
            http10,
            status,
            reason: b"X".to_vec(),
            fields: vec![],
        }
    }
    pub fn with(mut self, name: &str, value: &[u8]) -> RespHead {
        self.fields.push(Field::new(name, value));
        self
    }
    pub fn render(&self) -> Vec<u8> {
        let mut v = Vec::new();
        v.extend_from_slice(if self.http10 { b"HTTP/1.0 " } else { b"HTTP/1.1 " });
        v.extend_from_slice(format!("{:03} ", self.status).as_bytes());
        v.extend_from_slice(&self.reason);
        v.extend_from_slice(b"\r\n");
        for f in &self.fields {
            v.extend_from_slice(f.name.as_bytes());
            v.push(b':');
            v.extend_from_slice(f.lead.as_bytes());
            v.extend_from_slice(&f.value);
            v.extend_from_slice(f.trail.as_bytes());
            v.extend_from_slice(b"\r\n");
        }
        v.extend_from_slice(b"\r\n");
        v
    }
    /// token class of the byte at each offset of the rendered head, for coverage of cuts
    pub fn cut_class(&self, rendered: &[u8], at: usize) -> &'static str {
        if at == 0 {
            return "empty";
        }
        if at < 8 {
            return "in-version";
        }
        if at == 8 {
            return "after-version";
        }
        if at <= 12 {
            return "in-status";
        }
        let sl_end = rendered.windows(2).position(|w| w == b"\r\n").unwrap() + 2;
        if at < sl_end - 1 {
            return "in-reason";
        }
        if at == sl_end - 1 {
            return "statusline-CR";
        }
        if at == sl_end {
            return "after-statusline";
        }
        if at == rendered.len() - 1 {
            return "final-CR";
        }
        if at >= rendered.len() {
            return "complete";
        }
        // inside a field line
        let mut p = sl_end;
        for f in &self.fields {
            let name_end = p + f.name.len();
            let colon = name_end + 1;
            let val_start = colon + f.lead.len();
            let val_end = val_start + f.value.len();
            let line_end = val_end + f.trail.len() + 2;
            if at <= line_end {
                return if at <= name_end {
                    "in-name"
                } else if at <= val_start {
                    "in-ows"
                } else if at <= val_end {
                    "in-value"
                } else if at < line_end - 1 {
                    "in-trailing-ows"
                } else if at == line_end - 1 {
                    "field-CR"
                } else {
                    "after-field"
                };
            }
            p = line_end;
        }
        "other"
    }
}

/// Expected (name-lowercased, value) list in wire order.
pub fn expected_fields(h: &RespHead) -> Vec<(String, Vec<u8>)> {
    h.fields
        .iter()
        .map(|f| (f.name.to_ascii_lowercase(), f.value.clone()))
        .collect()
}

// =====================================================================================
// chunked coding generator for response bodies
// =====================================================================================

#[derive(Debug, Clone)]
pub struct ChunkSpec {
    pub size: usize,
    pub upper: bool,
    pub zeros: usize,
    pub ext: Option<&'static str>,
}

#[derive(Debug, Clone, Default)]
pub struct ChunkPlan {
    pub chunks: Vec<ChunkSpec>,
    pub last_zeros: usize,
    pub last_ext: Option<&'static str>,
    pub trailers: Vec<&'static str>,
}

#[derive(Debug, Clone, Copy, PartialEq, Eq)]
pub enum Tok {
    SizeDigits,
    SizeExt,
    SizeCr,
    SizeLf,
    Data,
    DataCr,
    DataLf,
    LastDigits,
    LastExt,
    LastCr,
    LastLf,
    Trailer,
    TrailerCr,
    TrailerLf,
    FinalCr,
    FinalLf,
}

impl Tok {
    pub fn name(&self) -> &'static str {
        match self {
            Tok::SizeDigits => "size-digits",
            Tok::SizeExt => "size-ext",
            Tok::SizeCr => "size-CR",
            Tok::SizeLf => "size-LF",
            Tok::Data => "data",
            Tok::DataCr => "data-CR",
            Tok::DataLf => "data-LF",
            Tok::LastDigits => "last-digits",
            Tok::LastExt => "last-ext",
            Tok::LastCr => "last-CR",
            Tok::LastLf => "last-LF",
            Tok::Trailer => "trailer",
            Tok::TrailerCr => "trailer-CR",
            Tok::TrailerLf => "trailer-LF",
            Tok::FinalCr => "final-CR",
            Tok::FinalLf => "final-LF",
        }
    }
}

#[derive(Debug, Clone, Default)]
pub struct Coded {
    pub bytes: Vec<u8>,
    pub data: Vec<u8>,
    /// cumulative data offsets at which each chunk ends
    pub chunk_ends: Vec<usize>,
    /// token kind of every byte of `bytes` (the byte *before* a cut position classifies the cut)
    pub toks: Vec<Tok>,
    /// offsets in `bytes` where a token ends (candidate cut points)
    pub boundaries: Vec<usize>,
}

/// Payload byte stream: a counter stream that deliberately contains CR and LF so that
/// payload bytes look like framing.
pub fn payload(n: usize, salt: u8) -> Vec<u8> {
    (0..n)
        .map(|i| match (i + salt as usize) % 7 {
            0 => b'\r',
            1 => b'\n',
            2 => b'0',
            3 => b';',
            _ => b'a' + ((i + salt as usize) % 23) as u8,
        })
        .collect()
}

pub fn encode_plan(plan: &ChunkPlan, salt: u8) -> Coded {
    let mut c = Coded::default();
    let push = |c: &mut Coded, b: &[u8], t: Tok| {
        if b.is_empty() {
            return;
        }
        c.bytes.extend_from_slice(b);
        for _ in 0..b.len() {
            c.toks.push(t);
        }
        c.boundaries.push(c.bytes.len());
    };
    let total: usize = plan.chunks.iter().map(|x| x.size).sum();
    let data = payload(total, salt);
    let mut off = 0usize;
    for ch in &plan.chunks {
        let mut digits = "0".repeat(ch.zeros);
        if ch.upper {
            digits.push_str(&format!("{:X}", ch.size));
        } else {
            digits.push_str(&format!("{:x}", ch.size));
        }
        push(&mut c, digits.as_bytes(), Tok::SizeDigits);
        if let Some(e) = ch.ext {
            push(&mut c, &ext_bytes(e), Tok::SizeExt);
        }
        push(&mut c, b"\r", Tok::SizeCr);
        push(&mut c, b"\n", Tok::SizeLf);
        push(&mut c, &data[off..off + ch.size], Tok::Data);
        off += ch.size;
        c.chunk_ends.push(off);
        push(&mut c, b"\r", Tok::DataCr);
        push(&mut c, b"\n", Tok::DataLf);
    }
    let mut digits = "0".repeat(plan.last_zeros);
    digits.push('0');
    push(&mut c, digits.as_bytes(), Tok::LastDigits);
    if let Some(e) = plan.last_ext {
        push(&mut c, &ext_bytes(e), Tok::LastExt);
    }
    push(&mut c, b"\r", Tok::LastCr);
    push(&mut c, b"\n", Tok::LastLf);
    for t in &plan.trailers {
        push(&mut c, t.as_bytes(), Tok::Trailer);
        push(&mut c, b"\r", Tok::TrailerCr);
        push(&mut c, b"\n", Tok::TrailerLf);
    }
    push(&mut c, b"\r", Tok::FinalCr);
    push(&mut c, b"\n", Tok::FinalLf);
    c.data = data;
    c
}

/// The bytes of an extension: the sign § stands for the single octet 0xE9 (obs-text inside a quoted-string is
/// legal there and is not UTF-8; the extensions themselves are kept as `&str` for readability).
pub fn ext_bytes(e: &str) -> Vec<u8> {
    let mut v = Vec::with_capacity(e.len());
    for c in e.chars() {
        if c == '§' {
            v.push(0xE9);
        } else {
            let mut b = [0u8; 4];
            v.extend_from_slice(c.encode_utf8(&mut b).as_bytes());
        }
    }
    v
}

pub const CHUNK_EXTS: [&str; 10] = [
    ";x",
    // octets above 0x7f in a quoted extension value: not text, and none of the decoder's business
    ";name=\"caf§\"",
    ";a=\"§§\";b",
    // blanks in front of the ';' (allowed to a recipient as "bad whitespace", RFC 9112 section 7.1.1), few and many
    " \t;x",
    "                      ;pad=1",
    ";name=value",
    ";a=\"q\"",
    // chunk extensions are not bounded by the grammar: lines longer than 20 bytes, longer than 100 bytes
    ";name=\"a longer value\"",
    ";ext=abcdefghijklmnopqrstuvwxyz",
    ";sig=0123456789abcdef0123456789abcdef0123456789abcdef0123456789abcdef0123456789abcdef0123456789abcdef0123456789abcdef;more",
];
pub const TRAILERS: [&str; 3] = ["X-T: 1", "Checksum: abc", "t:"];

/// Trailer field lines are not bounded the way chunk-size lines are: lines of 98..=102 bytes around a
/// round number, a few hundred bytes, and several kilobytes.
pub fn long_trailers() -> &'static [&'static str] {
    static CELL: std::sync::OnceLock<Vec<&'static str>> = std::sync::OnceLock::new();
    CELL.get_or_init(|| {
        [98usize, 99, 100, 101, 102, 128, 255, 256, 257, 300, 1023, 1024, 5000]
            .iter()
            .map(|n| {
                let s: String = format!("Digest: sha-512={}", "a".repeat(n - 16));
                assert_eq!(s.len(), *n);
                &*Box::leak(s.into_boxed_str())
            })
            .collect()
    })
}

pub fn random_plan(rng: &mut Rng, max_chunks: usize, max_size: usize) -> ChunkPlan {
    let n = rng.usize_in(0, max_chunks);
    let mut plan = ChunkPlan::default();
    for _ in 0..n {
        let size = match rng.below(8) {
            0 => *rng.pick(&[1usize, 2, 3, 15, 16, 17, 255, 256, 257, 4095, 4096, 4097]),
            1 => rng.usize_in(1, 9),
            _ => rng.usize_in(1, max_size.max(1)),
        }
        .min(max_size.max(1));
        plan.chunks.push(ChunkSpec {
            size,
            upper: rng.chance(1, 3),
            // the number of digits is not bounded by the grammar: a few zeros, or padded to a fixed wide column
            zeros: match rng.below(16) {
                0..=3 => rng.usize_in(1, 3),
                4 => rng.usize_in(16, 40),
                _ => 0,
            },
            ext: if rng.chance(1, 4) { Some(*rng.pick(&CHUNK_EXTS)) } else { None },
        });
    }
    plan.last_zeros = match rng.below(20) {
        0..=3 => rng.usize_in(1, 2),
        4 => rng.usize_in(19, 40),
        _ => 0,
    };
    plan.last_ext = if rng.chance(1, 6) { Some(*rng.pick(&CHUNK_EXTS)) } else { None };
    let nt = if rng.chance(1, 3) { rng.usize_in(1, 2) } else { 0 };
    for _ in 0..nt {
        plan.trailers.push(if rng.chance(1, 4) { *rng.pick(long_trailers()) } else { *rng.pick(&TRAILERS) });
    }
    plan
}

// =====================================================================================
// response body framing rule (RFC 9112 section 6.3 as restated by C06)
// =====================================================================================

#[derive(Debug, Clone, Copy, PartialEq, Eq)]
pub enum Framing {
    NoBody,
    Chunked,
    Length(u64),
    Close,
}

#[derive(Debug, Clone, PartialEq, Eq)]
pub enum FrameExp {
    Is(Framing, &'static str),
    Error(&'static str),
    /// the property statement does not determine this cell; any of the listed outcomes
    /// (None = error) is accepted
    DontCare(&'static str),
}

#[derive(Debug, Clone, Copy, PartialEq, Eq)]
pub enum ClClass {
    Absent,
    Num(u64),
    NonNumeric,
    /// "+1": u64::from_str accepts a leading plus; the statement does not say
    Ambiguous,
}

pub fn classify_cl(v: Option<&[u8]>) -> ClClass {
    match v {
        None => ClClass::Absent,
        Some(b) => {
            if !b.is_empty() && b.iter().all(|c| c.is_ascii_digit()) {
                match std::str::from_utf8(b).unwrap().parse::<u64>() {
                    Ok(n) => ClClass::Num(n),
                    Err(_) => ClClass::NonNumeric, // overflow: not representable
                }
            } else if b.len() > 1 && b[0] == b'+' && b[1..].iter().all(|c| c.is_ascii_digit()) {
                ClClass::Ambiguous
            } else {
                ClClass::NonNumeric
            }
        }
    }
}

#[derive(Debug, Clone, Copy, PartialEq, Eq)]
pub enum TeClass {
    Absent,
    /// the last coding is chunked (any case)
    Chunked,
    /// chunked appears but not last, or something unparseable
    Ambiguous,
    Other,
}

pub fn classify_te(v: Option<&[u8]>) -> TeClass {
    // several field lines (written with '\n' between them by the table) are one list
    let joined: Option<Vec<u8>> = v.map(|b| b.iter().map(|c| if *c == b'\n' { b',' } else { *c }).collect());
    match joined.as_deref() {
        None => TeClass::Absent,
        Some(b) => match std::str::from_utf8(b) {
            Err(_) => TeClass::Other,
            Ok(s) => {
                // empty list elements are ignored (RFC 9110 5.6.1.2)
                let parts: Vec<String> = s.split(',').map(|p| p.trim().to_ascii_lowercase()).filter(|p| !p.is_empty()).collect();
                let last = parts.last().map(|s| s.as_str()).unwrap_or("");
                if last == "chunked" {
                    TeClass::Chunked
                } else if parts.iter().any(|p| p == "chunked") {
                    TeClass::Ambiguous
                } else {
                    TeClass::Other
                }
            }
        },
    }
}

pub fn body_rule(method: &str, status: u16, resp_http10: bool, cl: ClClass, te: TeClass) -> FrameExp {
    let bodyless = method == "HEAD"
        || (method == "CONNECT" && (200..300).contains(&status))
        || (100..200).contains(&status)
        || status == 204
        || status == 304;
    if bodyless {
        // "A non-numeric Content-Length is an error" is stated without exception, and the statement is
        // what is checked here (RFC 9112 would let the no-body rules win; the property text does not).
        if cl == ClClass::NonNumeric {
            return FrameExp::Error("non-numeric-content-length-on-bodyless");
        }
        if cl == ClClass::Ambiguous {
            return FrameExp::DontCare("bodyless response with a +N Content-Length");
        }
        let why = if method == "HEAD" {
            "HEAD"
        } else if method == "CONNECT" {
            "CONNECT-2xx"
        } else if status == 204 {
            "204"
        } else if status == 304 {
            "304"
        } else {
            "1xx"
        };
        return FrameExp::Is(Framing::NoBody, why);
    }
    if te == TeClass::Ambiguous || cl == ClClass::Ambiguous {
        return FrameExp::DontCare("coding list not ending in chunked / +N content-length");
    }
    let is_3xx = (300..400).contains(&status);
    if te == TeClass::Chunked && !resp_http10 {
        if cl == ClClass::NonNumeric {
            return FrameExp::Error("non-numeric-content-length-with-chunked");
        }
        return FrameExp::Is(Framing::Chunked, if cl == ClClass::Absent { "chunked" } else { "chunked-over-length" });
    }
    match cl {
        ClClass::NonNumeric => FrameExp::Error("non-numeric-content-length"),
        ClClass::Num(n) => FrameExp::Is(Framing::Length(n), if te == TeClass::Chunked { "length-http10-ignores-chunked" } else { "length" }),
        ClClass::Absent => {
            if is_3xx && te == TeClass::Absent {
                FrameExp::Is(Framing::NoBody, "redirect-without-framing")
            } else if is_3xx {
                // the exception is for a redirect "without ANY framing header"; a Transfer-Encoding field is
                // one, whatever it names (and on an HTTP/1.0 response, where chunked is not applied, too)
                FrameExp::Is(Framing::Close, if te == TeClass::Chunked { "close-http10-3xx-ignores-chunked" } else { "close-3xx-with-other-coding" })
            } else {
                FrameExp::Is(Framing::Close, if te == TeClass::Chunked { "close-http10-ignores-chunked" } else { "close" })
            }
        }
        ClClass::Ambiguous => unreachable!(),
    }
}

/// Successor of the response head per C06: body state iff a non-empty body is expected.
pub fn successor(f: Framing, status: u16) -> &'static str {
    let nonempty = match f {
        Framing::NoBody => false,
        Framing::Length(0) => false,
        _ => true,
    };
    if nonempty {
        "RecvBody"
    } else if (300..400).contains(&status) && status != 304 {
        "Redirect"
    } else {
        "Cleanup"
    }
}

pub fn is_redirect_status(status: u16) -> bool {
    (300..400).contains(&status) && status != 304
}

// =====================================================================================
// redirect method table (C15) and credential rule (C13)
// =====================================================================================

/// None = the redirect is not followed.
pub fn redirect_method(method: &str, status: u16) -> Option<&'static str> {
    let m: &'static str = match method {
        "GET" => "GET",
        "HEAD" => "HEAD",
        "POST" => "POST",
        "PUT" => "PUT",
        "DELETE" => "DELETE",
        "CONNECT" => "CONNECT",
        "OPTIONS" => "OPTIONS",
        "TRACE" => "TRACE",
        "PATCH" => "PATCH",
        _ => "?",
    };
    if status == 307 || status == 308 {
        if matches!(m, "POST" | "PUT" | "PATCH" | "DELETE") {
            None
        } else {
            Some(m)
        }
    } else if m == "HEAD" {
        Some("HEAD")
    } else {
        Some("GET")
    }
}

// =====================================================================================
// RFC 3986 reference resolution
// =====================================================================================

#[derive(Debug, Clone, PartialEq, Eq, Default)]
pub struct UriRef {
    pub scheme: Option<String>,
    pub authority: Option<String>,
    pub path: String,
    pub query: Option<String>,
    pub fragment: Option<String>,
}

/// RFC 3986 appendix B split.
pub fn split_uri(s: &str) -> UriRef {
    let mut r = UriRef::default();
    let mut rest = s;
    if let Some(i) = rest.find('#') {
        r.fragment = Some(rest[i + 1..].to_string());
        rest = &rest[..i];
    }
    if let Some(i) = rest.find('?') {
        r.query = Some(rest[i + 1..].to_string());
        rest = &rest[..i];
    }
    // scheme
    if let Some(i) = rest.find(':') {
        let cand = &rest[..i];
        let ok = !cand.is_empty()
            && cand.chars().next().unwrap().is_ascii_alphabetic()
            && cand.chars().all(|c| c.is_ascii_alphanumeric() || "+-.".contains(c));
        if ok && !cand.contains('/') {
            r.scheme = Some(cand.to_string());
            rest = &rest[i + 1..];
        }
    }
    if let Some(a) = rest.strip_prefix("//") {
        let end = a.find('/').unwrap_or(a.len());
        r.authority = Some(a[..end].to_string());
        rest = &a[end..];
    }
    r.path = rest.to_string();
    r
}

pub fn remove_dot_segments(path: &str) -> String {
    let mut input = path.to_string();
    let mut out = String::new();
    while !input.is_empty() {
        if input.starts_with("../") {
            input.drain(..3);
        } else if input.starts_with("./") {
            input.drain(..2);
        } else if input.starts_with("/./") {
            input.replace_range(..3, "/");
        } else if input == "/." {
            input = "/".to_string();
        } else if input.starts_with("/../") {
            input.replace_range(..4, "/");
            if let Some(i) = out.rfind('/') {
                out.truncate(i);
            } else {
                out.clear();
            }
        } else if input == "/.." {
            input = "/".to_string();
            if let Some(i) = out.rfind('/') {
                out.truncate(i);
            } else {
                out.clear();
            }
        } else if input == "." || input == ".." {
            input.clear();
        } else {
            let start = if input.starts_with('/') { 1 } else { 0 };
            let end = input[start..].find('/').map(|i| i + start).unwrap_or(input.len());
            out.push_str(&input[..end]);
            input.drain(..end);
        }
    }
    out
}

/// RFC 3986 section 5.2.2 (strict).
pub fn resolve(base: &UriRef, r: &UriRef) -> UriRef {
    let mut t = UriRef::default();
    if r.scheme.is_some() {
        t.scheme = r.scheme.clone();
        t.authority = r.authority.clone();
        t.path = remove_dot_segments(&r.path);
        t.query = r.query.clone();
    } else {
        if r.authority.is_some() {
            t.authority = r.authority.clone();
            t.path = remove_dot_segments(&r.path);
            t.query = r.query.clone();
        } else {
            if r.path.is_empty() {
                t.path = base.path.clone();
                t.query = if r.query.is_some() { r.query.clone() } else { base.query.clone() };
            } else {
                if r.path.starts_with('/') {
                    t.path = remove_dot_segments(&r.path);
                } else {
                    // merge
                    let merged = if base.authority.is_some() && base.path.is_empty() {
                        format!("/{}", r.path)
                    } else {
                        match base.path.rfind('/') {
                            Some(i) => format!("{}{}", &base.path[..=i], r.path),
                            None => r.path.clone(),
                        }
                    };
                    t.path = remove_dot_segments(&merged);
                }
                t.query = r.query.clone();
            }
            t.authority = base.authority.clone();
        }
        t.scheme = base.scheme.clone();
    }
    t.fragment = r.fragment.clone();
    t
}

/// Scheme-based normalisation (RFC 3986 section 6.2.3) for comparison: lower-case scheme
/// and host, default port removed, empty path -> "/", fragment dropped.
pub fn normalise(u: &UriRef) -> String {
    let scheme = u.scheme.clone().unwrap_or_default().to_ascii_lowercase();
    let mut auth = u.authority.clone().unwrap_or_default();
    // split userinfo@host:port
    let (userinfo, hostport) = match auth.rfind('@') {
        Some(i) => (Some(auth[..i].to_string()), auth[i + 1..].to_string()),
        None => (None, auth.clone()),
    };
    let (host, port) = if hostport.starts_with('[') {
        match hostport.find(']') {
            Some(i) => (hostport[..=i].to_string(), hostport[i + 1..].strip_prefix(':').map(|s| s.to_string())),
            None => (hostport.clone(), None),
        }
    } else {
        match hostport.rfind(':') {
            Some(i) => (hostport[..i].to_string(), Some(hostport[i + 1..].to_string())),
            None => (hostport.clone(), None),
        }
    };
    let port = match (scheme.as_str(), port.as_deref()) {
        (_, None) | (_, Some("")) => None,
        ("http", Some("80")) | ("https", Some("443")) => None,
        (_, Some(p)) => Some(p.to_string()),
    };
    auth = String::new();
    if let Some(u) = userinfo {
        auth.push_str(&u);
        auth.push('@');
    }
    auth.push_str(&host.to_ascii_lowercase());
    if let Some(p) = port {
        auth.push(':');
        auth.push_str(&p);
    }
    let path = if u.path.is_empty() { "/".to_string() } else { u.path.clone() };
    let mut s = format!("{}://{}{}", scheme, auth, path);
    if let Some(q) = &u.query {
        s.push('?');
        s.push_str(q);
    }
    s
}

pub fn host_of(u: &UriRef) -> String {
    let auth = u.authority.clone().unwrap_or_default();
    let hostport = match auth.rfind('@') {
        Some(i) => auth[i + 1..].to_string(),
        None => auth,
    };
    if hostport.starts_with('[') {
        match hostport.find(']') {
            Some(i) => hostport[..=i].to_ascii_lowercase(),
            None => hostport.to_ascii_lowercase(),
        }
    } else {
        match hostport.rfind(':') {
            Some(i) => hostport[..i].to_ascii_lowercase(),
            None => hostport.to_ascii_lowercase(),
        }
    }
}

pub fn path_and_query(u: &UriRef) -> String {
    let mut s = if u.path.is_empty() { "/".to_string() } else { u.path.clone() };
    if let Some(q) = &u.query {
        s.push('?');
        s.push_str(q);
    }
    s
}

#[cfg(test)]
mod test {
    use super::*;

    #[test]
    fn rfc3986_examples() {
        let base = split_uri("http://a/b/c/d;p?q");
        let cases = [
            ("g:h", "g:h"),
            ("g", "http://a/b/c/g"),
            ("./g", "http://a/b/c/g"),
            ("g/", "http://a/b/c/g/"),
            ("/g", "http://a/g"),
            ("//g", "http://g"),
            ("?y", "http://a/b/c/d;p?y"),
            ("g?y", "http://a/b/c/g?y"),
            ("#s", "http://a/b/c/d;p?q#s"),
            ("g#s", "http://a/b/c/g#s"),
            ("g?y#s", "http://a/b/c/g?y#s"),
            (";x", "http://a/b/c/;x"),
            ("g;x", "http://a/b/c/g;x"),
            ("g;x?y#s", "http://a/b/c/g;x?y#s"),
            ("", "http://a/b/c/d;p?q"),
            (".", "http://a/b/c/"),
            ("./", "http://a/b/c/"),
            ("..", "http://a/b/"),
            ("../", "http://a/b/"),
            ("../g", "http://a/b/g"),
            ("../..", "http://a/"),
            ("../../", "http://a/"),
            ("../../g", "http://a/g"),
            ("../../../g", "http://a/g"),
            ("../../../../g", "http://a/g"),
            ("/./g", "http://a/g"),
            ("/../g", "http://a/g"),
            ("g.", "http://a/b/c/g."),
            (".g", "http://a/b/c/.g"),
            ("g..", "http://a/b/c/g.."),
            ("..g", "http://a/b/c/..g"),
            ("./../g", "http://a/b/g"),
            ("./g/.", "http://a/b/c/g/"),
            ("g/./h", "http://a/b/c/g/h"),
            ("g/../h", "http://a/b/c/h"),
            ("g;x=1/./y", "http://a/b/c/g;x=1/y"),
            ("g;x=1/../y", "http://a/b/c/y"),
            ("g?y/./x", "http://a/b/c/g?y/./x"),
            ("g?y/../x", "http://a/b/c/g?y/../x"),
            ("g#s/./x", "http://a/b/c/g#s/./x"),
            ("g#s/../x", "http://a/b/c/g#s/../x"),
        ];
        for (r, want) in cases {
            let t = resolve(&base, &split_uri(r));
            let mut s = String::new();
            if let Some(sc) = &t.scheme {
                s.push_str(sc);
                s.push(':');
            }
            if let Some(a) = &t.authority {
                s.push_str("//");
                s.push_str(a);
            }
            s.push_str(&t.path);
            if let Some(q) = &t.query {
                s.push('?');
                s.push_str(q);
            }
            if let Some(f) = &t.fragment {
                s.push('#');
                s.push_str(f);
            }
            assert_eq!(s, want, "ref {:?}", r);
        }
    }

    #[test]
    fn chunk_roundtrip() {
        let d = decode_chunked_strict(b"5\r\nhello\r\n0\r\n\r\n").unwrap();
        assert!(d.terminated);
        assert_eq!(d.data, b"hello");
        assert!(decode_chunked_strict(b"0\r\n\r\n5\r\nhello\r\n").is_err());
        assert!(decode_chunked_strict(b"5\r\nhel").is_err());
    }

    #[test]
    fn head_strict() {
        let h = parse_request_head_strict(b"GET / HTTP/1.1\r\nhost: a\r\n\r\n").unwrap();
        // request line, the one header line, the empty line: each a line of its own
        assert_eq!(h.units, vec![16, 25, 27]);
        assert!(parse_request_head_strict(b"GET / HTTP/1.1\r\nhost: a\r\n").is_err());
        assert!(parse_request_head_strict(b"GET / HTTP/1.1\r\nhost: a\r\n\r\nx").is_err());
    }
}
