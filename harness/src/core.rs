//! Runner: workloads -> cases -> oracle verdicts -> evidence / replay files.
//!
//! A case is identified by (workload name, index, seed); everything a case does is a
//! deterministic function of those three, so a replay file only needs to name them.
//! Cases run without event logging; a violating or sampled case is re-executed with
//! logging on to capture the boundary event log.

use std::cell::RefCell;
use std::collections::{BTreeMap, HashMap};
use std::panic::{catch_unwind, AssertUnwindSafe};
use std::sync::atomic::{AtomicBool, AtomicU64, Ordering};
use std::sync::Mutex;
use std::time::Instant;

use crate::hookmon;
use crate::json::J;

/// Set by the Miri / ASan lane binary: generators shrink their cases (few fields, few prefixes)
/// so that an interpreter four orders of magnitude slower still gets through hundreds of calls.
pub static LANE_MODE: AtomicBool = AtomicBool::new(false);

pub fn lane_mode() -> bool {
    LANE_MODE.load(Ordering::Relaxed)
}

#[derive(Clone, Copy, PartialEq, Eq, Debug)]
pub enum Tier {
    Quick,
    Thorough,
}

impl Tier {
    pub fn name(&self) -> &'static str {
        match self {
            Tier::Quick => "quick",
            Tier::Thorough => "thorough",
        }
    }
    /// pick by tier
    pub fn pick<T>(&self, quick: T, thorough: T) -> T {
        match self {
            Tier::Quick => quick,
            Tier::Thorough => thorough,
        }
    }
}

pub struct Workload {
    pub name: &'static str,
    pub n: u64,
    /// the index space is a complete enumeration of a finite set (not seed dependent)
    pub exhaustive: bool,
    pub note: String,
}

impl Workload {
    pub fn new(name: &'static str, n: u64, exhaustive: bool, note: impl Into<String>) -> Workload {
        Workload {
            name,
            n,
            exhaustive,
            note: note.into(),
        }
    }
}

#[derive(Clone, Debug)]
pub struct Viol {
    pub sig: String,
    pub msg: String,
}

/// Per-worker recorder handed to every case.
pub struct Rec {
    pub logging: bool,
    pub log: Vec<String>,
    pub cov: HashMap<String, u64>,
    pub calls: u64,
    pub viol: Option<Viol>,
    pub stats: HashMap<&'static str, u64>,
}

impl Rec {
    pub fn new(logging: bool) -> Rec {
        Rec {
            logging,
            log: Vec::new(),
            cov: HashMap::new(),
            calls: 0,
            viol: None,
            stats: HashMap::new(),
        }
    }
    #[inline]
    pub fn cov(&mut self, k: &str) {
        if let Some(v) = self.cov.get_mut(k) {
            *v += 1;
        } else {
            self.cov.insert(k.to_string(), 1);
        }
    }
    #[inline]
    pub fn stat(&mut self, k: &'static str, n: u64) {
        *self.stats.entry(k).or_insert(0) += n;
    }
    #[inline]
    pub fn ev(&mut self, f: impl FnOnce() -> String) {
        if self.logging {
            if self.log.len() < 4000 {
                self.log.push(f());
            }
        }
    }
    /// Record a violation of the property for the current case (first one wins).
    pub fn fail(&mut self, sig: &str, msg: String) {
        if self.viol.is_none() {
            if self.logging {
                self.log.push(format!("!! VIOLATION [{}] {}", sig, msg));
            }
            self.viol = Some(Viol {
                sig: sig.to_string(),
                msg,
            });
        }
    }
    pub fn failed(&self) -> bool {
        self.viol.is_some()
    }
    /// Count one observed public API call.
    #[inline]
    pub fn call(&mut self) {
        self.calls += 1;
    }
}

pub trait Property: Sync {
    fn id(&self) -> &'static str;
    fn level(&self) -> &'static str {
        "exploration"
    }
    fn rule(&self) -> String;
    fn assumptions(&self) -> Vec<String>;
    fn workloads(&self, tier: Tier) -> Vec<Workload>;
    fn run_case(&self, wl: &str, idx: u64, seed: u64, rec: &mut Rec);
    /// coverage classes (exact key, or prefix ending in '*') that must have been observed at
    /// least `min` times, else the run is inconclusive (exit 2).
    fn floors(&self, tier: Tier) -> Vec<(String, u64)>;
}

// ------------------------------------------------------------------ panic capture

thread_local! {
    static LAST_PANIC: RefCell<Option<(String, String)>> = const { RefCell::new(None) };
}

pub fn install_panic_hook() {
    let debug = std::env::var("VERIF_DEBUG").is_ok();
    std::panic::set_hook(Box::new(move |info| {
        let loc = info
            .location()
            .map(|l| {
                let f = l.file();
                // keep the path relative to the crate for stable signatures
                let f = f.rsplit_once("/src/").map(|x| x.1).unwrap_or(f);
                format!("{}:{}", f, l.line())
            })
            .unwrap_or_else(|| "?".into());
        let msg = if let Some(s) = info.payload().downcast_ref::<&str>() {
            s.to_string()
        } else if let Some(s) = info.payload().downcast_ref::<String>() {
            s.clone()
        } else {
            "<non-string panic>".into()
        };
        if debug {
            eprintln!("[panic] {} at {}", msg, loc);
        }
        LAST_PANIC.with(|p| *p.borrow_mut() = Some((loc, msg)));
    }));
}

pub fn take_panic() -> Option<(String, String)> {
    LAST_PANIC.with(|p| p.borrow_mut().take())
}

/// Run a closure that calls into the crate, converting a panic into Err((location, message)).
pub fn guarded<T>(f: impl FnOnce() -> T) -> Result<T, (String, String)> {
    match catch_unwind(AssertUnwindSafe(f)) {
        Ok(v) => Ok(v),
        Err(_) => Err(take_panic().unwrap_or_else(|| ("?".into(), "?".into()))),
    }
}

/// Signature for a panic: tick budget panics are their own class.
pub fn panic_sig(loc: &str, msg: &str) -> String {
    if msg.starts_with(hookmon::TICK_PANIC) {
        let site = msg.split_whitespace().nth(1).unwrap_or("site=?");
        format!("step-budget/{}", site)
    } else {
        format!("panic@{}", loc)
    }
}

// ------------------------------------------------------------------ known findings

pub struct Known {
    pub known: Vec<(String, String, String)>, // (property, sig, text)
    pub fixed: Vec<String>,
}

pub fn load_known(path: &str) -> Known {
    let mut k = Known {
        known: vec![],
        fixed: vec![],
    };
    if let Ok(s) = std::fs::read_to_string(path) {
        for line in s.lines() {
            let line = line.trim();
            if let Some(rest) = line.strip_prefix("known:") {
                let rest = rest.trim();
                let mut prop = String::new();
                let mut sig = String::new();
                let mut text = Vec::new();
                for tok in rest.split_whitespace() {
                    if let Some(p) = tok.strip_prefix("property=") {
                        if prop.is_empty() {
                            prop = p.to_string();
                            continue;
                        }
                    }
                    if let Some(p) = tok.strip_prefix("sig=") {
                        if sig.is_empty() {
                            sig = p.to_string();
                            continue;
                        }
                    }
                    text.push(tok);
                }
                if !prop.is_empty() && !sig.is_empty() {
                    k.known.push((prop, sig, text.join(" ")));
                }
            } else if line.starts_with("fixed:") {
                k.fixed.push(line.to_string());
            }
        }
    }
    k
}

// ------------------------------------------------------------------ run

pub struct RunOpts {
    pub tier: Tier,
    pub seed: u64,
    pub threads: usize,
    pub verif_dir: String,
    pub scale_pct: u64,
}

struct Found {
    wl: &'static str,
    idx: u64,
    viol: Viol,
}

fn run_one(prop: &dyn Property, wl: &str, idx: u64, seed: u64, rec: &mut Rec) {
    hookmon::begin_case();
    rec.viol = None;
    let r = catch_unwind(AssertUnwindSafe(|| prop.run_case(wl, idx, seed, rec)));
    hookmon::disarm();
    if r.is_err() {
        let (loc, msg) = take_panic().unwrap_or_else(|| ("?".into(), "?".into()));
        let sig = panic_sig(&loc, &msg);
        // a panic escaping a case is a violation for every property: each of them
        // only makes calls its quantifier permits
        rec.viol = None;
        rec.fail(&sig, format!("panic escaped the case: {} at {}", msg, loc));
    }
    if let Some(fv) = hookmon::take_flow_violation() {
        if rec.viol.is_none() {
            rec.fail("hook/typestate-invariant", fv);
        }
    }
}

pub fn replay_case(prop: &dyn Property, wl: &str, idx: u64, seed: u64) -> Rec {
    hookmon::install();
    let mut rec = Rec::new(true);
    run_one(prop, wl, idx, seed, &mut rec);
    rec
}

enum Confirm {
    Returned,
    Violation,
    NoReturn,
}

fn confirm_alone(id: &str, replay: &str, verif_dir: &str, limit_s: u64) -> Confirm {
    let exe = match std::env::current_exe() {
        Ok(e) => e,
        Err(_) => return Confirm::Returned,
    };
    let child = std::process::Command::new(exe)
        .args([id, "--replay", replay])
        .env("VERIF_DIR", verif_dir)
        .env("VERIF_REPLAY_LIMIT_S", (limit_s * 4).to_string())
        .stdout(std::process::Stdio::null())
        .stderr(std::process::Stdio::null())
        .spawn();
    let mut child = match child {
        Ok(c) => c,
        Err(_) => return Confirm::Returned,
    };
    let t0 = Instant::now();
    loop {
        match child.try_wait() {
            Ok(Some(st)) => {
                return match st.code() {
                    Some(1) => Confirm::Violation,
                    _ => Confirm::Returned,
                }
            }
            Ok(None) => {
                if t0.elapsed().as_secs() > limit_s {
                    let _ = child.kill();
                    let _ = child.wait();
                    return Confirm::NoReturn;
                }
                std::thread::sleep(std::time::Duration::from_millis(200));
            }
            Err(_) => return Confirm::Returned,
        }
    }
}

fn sanitize(s: &str) -> String {
    s.chars()
        .map(|c| if c.is_ascii_alphanumeric() || c == '-' || c == '_' { c } else { '_' })
        .collect()
}

/// Returns the process exit code.
pub fn run_property(prop: &dyn Property, opts: &RunOpts) -> i32 {
    let t0 = Instant::now();
    let id = prop.id();
    let workloads = prop.workloads(opts.tier);
    // the list of recorded findings lives next to the check script (VERIF_HOME), wherever the evidence goes
    let known_home = std::env::var("VERIF_HOME").unwrap_or_else(|_| opts.verif_dir.clone());
    let known = load_known(&format!("{}/KNOWN_FINDINGS.txt", known_home));

    let total_cov: Mutex<BTreeMap<String, u64>> = Mutex::new(BTreeMap::new());
    let total_hooks: Mutex<BTreeMap<String, u64>> = Mutex::new(BTreeMap::new());
    let total_stats: Mutex<BTreeMap<String, u64>> = Mutex::new(BTreeMap::new());
    let found: Mutex<Vec<Found>> = Mutex::new(Vec::new());
    let cases = AtomicU64::new(0);
    let calls = AtomicU64::new(0);
    let nviol = AtomicU64::new(0);
    let stop = AtomicBool::new(false);

    // watchdog: generous wall clock bound; firing means inconclusive, never a violation
    let watchdog_s: u64 = std::env::var("VERIF_WATCHDOG_S")
        .ok()
        .and_then(|v| v.parse().ok())
        .unwrap_or(opts.tier.pick(1500, 4 * 3600));
    {
        let idc = id.to_string();
        std::thread::spawn(move || {
            std::thread::sleep(std::time::Duration::from_secs(watchdog_s));
            println!(
                "INCONCLUSIVE property={} watchdog fired after {}s (not a violation)",
                idc, watchdog_s
            );
            std::process::exit(2);
        });
    }

    // per-case heartbeat: a case that does not return for a long time (non-termination outside the
    // instrumented loops) is named, so that it can be replayed; wall clock never makes a violation
    let case_limit_s: u64 = std::env::var("VERIF_CASE_LIMIT_S").ok().and_then(|v| v.parse().ok()).unwrap_or(opts.tier.pick(30, 120));
    let confirm_limit_s: u64 = std::env::var("VERIF_CONFIRM_LIMIT_S").ok().and_then(|v| v.parse().ok()).unwrap_or(opts.tier.pick(60, 240));
    let verif_dir_hb = opts.verif_dir.clone();
    let beats: std::sync::Arc<Vec<Mutex<Option<(&'static str, u64, Instant)>>>> = std::sync::Arc::new((0..opts.threads).map(|_| Mutex::new(None)).collect());
    {
        let beats = beats.clone();
        let idc = id.to_string();
        let seed = opts.seed;
        std::thread::spawn(move || loop {
            std::thread::sleep(std::time::Duration::from_secs(2));
            for b in beats.iter() {
                if let Some((wl, idx, t)) = b.lock().unwrap().as_ref() {
                    if t.elapsed().as_secs() > case_limit_s {
                        // A case (normally micro- to milliseconds) has not returned. Wall clock alone is
                        // never a verdict: the case is re-executed alone in a fresh process with a generous
                        // budget. Only if it does not return there either is it reported as non-termination.
                        let _ = std::fs::create_dir_all(format!("{}/replays", verif_dir_hb));
                        let path = format!("{}/replays/{}-{}-{}-s{}-noreturn.json", verif_dir_hb, idc, sanitize(wl), idx, seed);
                        let j = J::obj(vec![
                            ("property", J::s(idc.clone())),
                            ("workload", J::s(*wl)),
                            ("index", J::i(*idx)),
                            ("seed", J::i(seed)),
                            ("signature", J::s(format!("no-return/{}", wl))),
                            ("what", J::s(format!("the case did not return within {}s in the run and was re-executed alone", case_limit_s))),
                        ]);
                        let _ = std::fs::write(&path, j.render());
                        let code = confirm_alone(&idc, &path, &verif_dir_hb, confirm_limit_s);
                        match code {
                            Confirm::Returned => {
                                println!(
                                    "INCONCLUSIVE property={} case workload={} index={} seed={} did not return for {}s in the run but returned when re-executed alone (machine load, not judged)",
                                    idc, wl, idx, seed, case_limit_s
                                );
                                std::process::exit(2);
                            }
                            Confirm::Violation => {
                                println!("VIOLATION property={} replay={}", idc, path);
                                println!("  signature: (see replay) the stuck case reports a violation when re-executed alone");
                                std::process::exit(1);
                            }
                            Confirm::NoReturn => {
                                println!("VIOLATION property={} replay={}", idc, path);
                                println!("  signature: no-return/{}", wl);
                                println!(
                                    "  what: case workload={} index={} did not return within {}s in the run and again not within {}s when re-executed alone in a fresh process: a call into the crate does not terminate",
                                    wl, idx, case_limit_s, confirm_limit_s
                                );
                                std::process::exit(1);
                            }
                        }
                    }
                }
            }
        });
    }

    let mut wl_summ = Vec::new();
    let worker_ids = AtomicU64::new(0);
    for wl in &workloads {
        let n = if wl.exhaustive {
            wl.n
        } else {
            (wl.n * opts.scale_pct / 100).max(1)
        };
        let next = AtomicU64::new(0);
        let wl_t0 = Instant::now();
        std::thread::scope(|sc| {
            for _ in 0..opts.threads {
                sc.spawn(|| {
                    hookmon::install();
                    let my_beat = &beats[(worker_ids.fetch_add(1, Ordering::Relaxed) as usize) % beats.len()];
                    let mut rec = Rec::new(false);
                    let mut local_found: Vec<Found> = Vec::new();
                    let mut local_cases = 0u64;
                    let block = (n / (opts.threads as u64 * 16)).clamp(1, 256);
                    loop {
                        if stop.load(Ordering::Relaxed) {
                            break;
                        }
                        let start = next.fetch_add(block, Ordering::Relaxed);
                        if start >= n {
                            break;
                        }
                        let end = (start + block).min(n);
                        for idx in start..end {
                            *my_beat.lock().unwrap() = Some((wl.name, idx, Instant::now()));
                            run_one(prop, wl.name, idx, opts.seed, &mut rec);
                            local_cases += 1;
                            if let Some(v) = rec.viol.take() {
                                let c = nviol.fetch_add(1, Ordering::Relaxed);
                                if local_found.len() < 64 {
                                    local_found.push(Found {
                                        wl: wl.name,
                                        idx,
                                        viol: v,
                                    });
                                }
                                if c > 200_000 {
                                    stop.store(true, Ordering::Relaxed);
                                }
                            }
                        }
                    }
                    *my_beat.lock().unwrap() = None;
                    cases.fetch_add(local_cases, Ordering::Relaxed);
                    calls.fetch_add(rec.calls, Ordering::Relaxed);
                    {
                        let mut tc = total_cov.lock().unwrap();
                        for (k, v) in rec.cov.drain() {
                            *tc.entry(k).or_insert(0) += v;
                        }
                    }
                    {
                        let mut ts = total_stats.lock().unwrap();
                        for (k, v) in rec.stats.drain() {
                            *ts.entry(k.to_string()).or_insert(0) += v;
                        }
                    }
                    {
                        let mut th = total_hooks.lock().unwrap();
                        for (k, v) in hookmon::take_counts() {
                            *th.entry(k).or_insert(0) += v;
                        }
                    }
                    found.lock().unwrap().extend(local_found);
                });
            }
        });
        wl_summ.push(J::obj(vec![
            ("name", J::s(wl.name)),
            ("cases", J::i(n)),
            ("exhaustive", J::Bool(wl.exhaustive)),
            ("what", J::s(wl.note.clone())),
            ("wall_s", J::Num(wl_t0.elapsed().as_secs_f64())),
        ]));
    }

    // ---- violations: group by signature, smallest index first, write replay files
    let mut found = found.into_inner().unwrap();
    found.sort_by(|a, b| (a.viol.sig.as_str(), a.wl, a.idx).cmp(&(b.viol.sig.as_str(), b.wl, b.idx)));
    let mut by_sig: Vec<&Found> = Vec::new();
    for f in &found {
        if by_sig.last().map(|l| l.viol.sig != f.viol.sig).unwrap_or(true) {
            by_sig.push(f);
        }
    }
    let _ = std::fs::create_dir_all(format!("{}/replays", opts.verif_dir));
    let mut unlisted = 0u64;
    let mut out_lines = Vec::new();
    let mut viol_summ = Vec::new();
    for f in by_sig.iter().take(40) {
        let rec = replay_case(prop, f.wl, f.idx, opts.seed);
        let reproduced = rec.viol.as_ref().map(|v| v.sig == f.viol.sig).unwrap_or(false);
        let path = format!(
            "{}/replays/{}-{}-{}-s{}.json",
            opts.verif_dir,
            id,
            sanitize(f.wl),
            f.idx,
            opts.seed
        );
        let j = J::obj(vec![
            ("property", J::s(id)),
            ("workload", J::s(f.wl)),
            ("index", J::i(f.idx)),
            ("seed", J::i(opts.seed)),
            ("tier", J::s(opts.tier.name())),
            ("signature", J::s(f.viol.sig.clone())),
            ("what", J::s(f.viol.msg.clone())),
            ("reproduced_on_rerun", J::Bool(reproduced)),
            ("event_log", J::arr_s(rec.log.iter().take(400).cloned())),
        ]);
        let _ = std::fs::write(&path, j.render());
        let listed = known
            .known
            .iter()
            .find(|(p, s, _)| p == id && *s == f.viol.sig);
        viol_summ.push(J::obj(vec![
            ("signature", J::s(f.viol.sig.clone())),
            ("what", J::s(f.viol.msg.clone())),
            ("replay", J::s(path.clone())),
            ("known_finding", J::Bool(listed.is_some())),
        ]));
        match listed {
            Some((_, s, text)) => out_lines.push(format!("KNOWN-FINDING: property={} sig={} {}", id, s, text)),
            None => {
                unlisted += 1;
                out_lines.push(format!("VIOLATION property={} replay={}", id, path));
                out_lines.push(format!("  signature: {}", f.viol.sig));
                out_lines.push(format!("  what: {}", f.viol.msg));
            }
        }
    }

    // ---- samples: first case of every workload (plus one from the middle), with its event log
    let mut samples = Vec::new();
    for wl in &workloads {
        for idx in [0u64, wl.n / 2] {
            if idx >= wl.n || (idx == 0 && wl.n / 2 == 0 && !samples.is_empty() && false) {
                continue;
            }
            let rec = replay_case(prop, wl.name, idx, opts.seed);
            samples.push(J::obj(vec![
                ("workload", J::s(wl.name)),
                ("index", J::i(idx)),
                ("verdict", J::s(if rec.viol.is_some() { "violation" } else { "held" })),
                ("event_log", J::arr_s(rec.log.iter().take(60).cloned())),
            ]));
            if wl.n / 2 == 0 {
                break;
            }
        }
    }

    // ---- coverage floors
    let cov = total_cov.into_inner().unwrap();
    let hooks = total_hooks.into_inner().unwrap();
    let stats = total_stats.into_inner().unwrap();
    let mut missing = Vec::new();
    for (key, min) in prop.floors(opts.tier) {
        let have: u64 = if let Some(h) = key.strip_prefix("hook:") {
            if let Some(p) = h.strip_suffix('*') {
                hooks.iter().filter(|(k, _)| k.starts_with(p)).map(|(_, v)| *v).sum()
            } else {
                hooks.get(h).copied().unwrap_or(0)
            }
        } else if let Some(p) = key.strip_suffix('*') {
            cov.iter().filter(|(k, _)| k.starts_with(p)).map(|(_, v)| *v).sum()
        } else {
            cov.get(&key).copied().unwrap_or(0)
        };
        if have < min {
            missing.push(format!("{} (have {}, need {})", key, have, min));
        }
    }

    let n_cases = cases.load(Ordering::Relaxed);
    let distinct = cov.len() as u64;
    let all_exh = workloads.iter().all(|w| w.exhaustive);
    let wall = t0.elapsed().as_secs_f64();

    // cap the class table in the evidence file (the count stays exact)
    let mut classes: Vec<(String, J)> = cov.iter().take(600).map(|(k, v)| (k.clone(), J::i(*v))).collect();
    if cov.len() > 600 {
        classes.push(("...".to_string(), J::s(format!("{} more classes not listed", cov.len() - 600))));
    }

    let ev = J::obj(vec![
        ("property_id", J::s(id)),
        ("tier", J::s(opts.tier.name())),
        ("seed", J::i(opts.seed)),
        ("level", J::s(prop.level())),
        (
            "coverage",
            J::obj(vec![
                ("evaluations", J::i(n_cases)),
                ("api_calls_observed", J::i(calls.load(Ordering::Relaxed))),
                ("distinct_nontrivial", J::i(distinct)),
                ("rule", J::s(prop.rule())),
                ("exhaustive", J::Bool(all_exh)),
                ("workloads", J::Arr(wl_summ)),
                ("classes_observed", J::Obj(classes)),
                ("hook_events_observed", J::from_map(&hooks)),
                ("statistics", J::from_map(&stats)),
                ("coverage_floors_missing", J::arr_s(missing.iter().cloned())),
                ("samples", J::Arr(samples)),
                ("violations_found", J::Arr(viol_summ)),
            ]),
        ),
        ("assumptions", J::arr_s(prop.assumptions())),
        ("wall_s", J::Num(wall)),
        ("violations", J::i(nviol.load(Ordering::Relaxed))),
        (
            "verdict",
            J::s(if unlisted > 0 {
                "violated"
            } else if !missing.is_empty() {
                "inconclusive"
            } else {
                "held on what was observed"
            }),
        ),
    ]);
    let _ = std::fs::create_dir_all(format!("{}/evidence", opts.verif_dir));
    let evpath = format!("{}/evidence/{}.json", opts.verif_dir, id);
    if let Err(e) = std::fs::write(&evpath, ev.render()) {
        println!("INCONCLUSIVE property={} cannot write evidence: {}", id, e);
        return 2;
    }

    for l in &out_lines {
        println!("{}", l);
    }
    println!(
        "{} {}: cases={} api_calls={} classes={} hook_events={} violations={} (unlisted signatures={}) wall={:.1}s",
        id,
        opts.tier.name(),
        n_cases,
        calls.load(Ordering::Relaxed),
        distinct,
        hooks.values().sum::<u64>(),
        nviol.load(Ordering::Relaxed),
        unlisted,
        wall
    );
    if unlisted > 0 {
        return 1;
    }
    if !missing.is_empty() {
        println!(
            "INCONCLUSIVE property={} coverage floors not reached: {}",
            id,
            missing.join("; ")
        );
        return 2;
    }
    let known_hits = out_lines.iter().filter(|l| l.starts_with("KNOWN-FINDING")).count();
    if known_hits > 0 {
        println!("HELD property={} on everything observed apart from {} listed known finding(s)", id, known_hits);
    } else {
        println!("HELD property={} on everything observed", id);
    }
    0
}
