//! lane <ID> <workload> <start> <count> <seed> [stride]
//! Single-threaded fixed-budget slice of a property's workload, for Miri and ASan.
//! Prints one line per violation and a summary; exit 1 on violation.
use hootmon::core;
use hootmon::hookmon;
use hootmon::props;

fn main() {
    let a: Vec<String> = std::env::args().collect();
    if a.len() < 6 {
        eprintln!("usage: lane <ID> <workload> <start> <count> <seed> [stride]");
        std::process::exit(2);
    }
    let prop = props::by_id(&a[1]).expect("known property");
    let wl = a[2].clone();
    let start: u64 = a[3].parse().unwrap();
    let count: u64 = a[4].parse().unwrap();
    let seed: u64 = a[5].parse().unwrap();
    let stride: u64 = a.get(6).and_then(|s| s.parse().ok()).unwrap_or(1);
    core::LANE_MODE.store(a.get(7).map(|s| s != "full").unwrap_or(true), std::sync::atomic::Ordering::Relaxed);
    core::install_panic_hook();
    hookmon::install();
    let mut viol = 0u64;
    let mut calls = 0u64;
    for i in 0..count {
        let idx = start + i * stride;
        let rec = core::replay_case(prop.as_ref(), &wl, idx, seed);
        calls += rec.calls;
        if let Some(v) = rec.viol {
            viol += 1;
            println!("LANE-VIOLATION property={} workload={} index={} seed={} signature={} what={}", prop.id(), wl, idx, seed, v.sig, v.msg);
        }
    }
    println!("LANE-SUMMARY property={} workload={} start={} count={} stride={} seed={} api_calls={} violations={}", prop.id(), wl, start, count, stride, seed, calls, viol);
    std::process::exit(if viol > 0 { 1 } else { 0 });
}
