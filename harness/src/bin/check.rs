//! check <ID> quick|thorough            run the monitors of one property
//! check <ID> --replay <file>           re-execute one recorded case and print its event log
use hootmon::core::{self, RunOpts, Tier};
use hootmon::json;
use hootmon::props;

fn main() {
    let args: Vec<String> = std::env::args().collect();
    if args.len() < 3 {
        eprintln!("usage: check <ID> quick|thorough | check <ID> --replay <file>");
        std::process::exit(2);
    }
    let verif_dir = std::env::var("VERIF_DIR").unwrap_or_else(|_| "/verif".to_string());
    let prop = match props::by_id(&args[1]) {
        Some(p) => p,
        None => {
            eprintln!("unknown property {}", args[1]);
            std::process::exit(2);
        }
    };
    core::install_panic_hook();
    if args[2] == "--replay" {
        let bad = |m: &str| -> ! {
            eprintln!("replay: {}", m);
            std::process::exit(2)
        };
        let path = match args.get(3) {
            Some(p) => p,
            None => bad("missing replay file argument"),
        };
        let src = match std::fs::read_to_string(path) {
            Ok(s) => s,
            Err(e) => bad(&format!("cannot read {}: {}", path, e)),
        };
        let j = match json::parse(&src) {
            Ok(j) => j,
            Err(e) => bad(&format!("{} is not json: {}", path, e)),
        };
        let wl = match j.get("workload").and_then(|v| v.as_str()) {
            Some(w) => w.to_string(),
            None => bad("no workload in replay file"),
        };
        let idx = j.get("index").and_then(|v| v.as_u64()).unwrap_or_else(|| bad("no index in replay file"));
        let seed = j.get("seed").and_then(|v| v.as_u64()).unwrap_or_else(|| bad("no seed in replay file"));
        {
            let limit: u64 = std::env::var("VERIF_REPLAY_LIMIT_S").ok().and_then(|v| v.parse().ok()).unwrap_or(300);
            let (id, wl2, path2) = (prop.id().to_string(), wl.clone(), path.clone());
            std::thread::spawn(move || {
                std::thread::sleep(std::time::Duration::from_secs(limit));
                println!("VIOLATION property={} replay={}", id, path2);
                println!("  signature: no-return/{}", wl2);
                println!("  what: the replayed case did not return within {}s (it normally takes milliseconds): a call into the crate does not terminate", limit);
                std::process::exit(1);
            });
        }
        let rec = core::replay_case(prop.as_ref(), &wl, idx, seed);
        println!("replay property={} workload={} index={} seed={}", prop.id(), wl, idx, seed);
        for l in &rec.log {
            println!("  {}", l);
        }
        match rec.viol {
            Some(v) => {
                println!("VIOLATION property={} replay={}", prop.id(), path);
                println!("  signature: {}", v.sig);
                println!("  what: {}", v.msg);
                std::process::exit(1);
            }
            None => {
                println!("replayed case holds on the current tree");
                std::process::exit(0);
            }
        }
    }
    let tier = match args[2].as_str() {
        "quick" => Tier::Quick,
        "thorough" => Tier::Thorough,
        other => {
            eprintln!("unknown tier {}", other);
            std::process::exit(2);
        }
    };
    let seed = std::env::var("VERIF_SEED").ok().and_then(|s| s.parse::<u64>().ok()).unwrap_or(1);
    let threads = std::env::var("VERIF_THREADS")
        .ok()
        .and_then(|s| s.parse::<usize>().ok())
        .unwrap_or_else(|| std::thread::available_parallelism().map(|n| n.get()).unwrap_or(8))
        .clamp(1, 64);
    let scale_pct = std::env::var("VERIF_SCALE_PCT").ok().and_then(|s| s.parse::<u64>().ok()).unwrap_or(100);
    let opts = RunOpts {
        tier,
        seed,
        threads,
        verif_dir,
        scale_pct,
    };
    let code = core::run_property(prop.as_ref(), &opts);
    std::process::exit(code);
}
