//! hootmon: runtime monitors for ureq-proto (algesten/hoot). See /verif/DESIGN.md.
pub mod core;
pub mod drive;
pub mod hookmon;
pub mod json;
pub mod model;
pub mod props;
pub mod rng;
pub mod wire;
