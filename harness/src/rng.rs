//! Deterministic PRNG (xoshiro256** seeded through splitmix64).
//! Every stream is derived from (VERIF_SEED, property, workload, case index).

#[derive(Clone, Debug)]
pub struct Rng {
    s: [u64; 4],
}

pub fn splitmix(x: &mut u64) -> u64 {
    *x = x.wrapping_add(0x9E3779B97F4A7C15);
    let mut z = *x;
    z = (z ^ (z >> 30)).wrapping_mul(0xBF58476D1CE4E5B9);
    z = (z ^ (z >> 27)).wrapping_mul(0x94D049BB133111EB);
    z ^ (z >> 31)
}

pub fn hash_str(s: &str) -> u64 {
    let mut h: u64 = 0xcbf29ce484222325;
    for b in s.bytes() {
        h ^= b as u64;
        h = h.wrapping_mul(0x100000001b3);
    }
    h
}

impl Rng {
    pub fn new(seed: u64) -> Rng {
        let mut x = seed;
        Rng {
            s: [splitmix(&mut x), splitmix(&mut x), splitmix(&mut x), splitmix(&mut x)],
        }
    }

    pub fn derive(seed: u64, tag: &str, idx: u64) -> Rng {
        let mut x = seed ^ hash_str(tag).rotate_left(17) ^ idx.wrapping_mul(0xD6E8FEB86659FD93);
        let a = splitmix(&mut x);
        Rng::new(a ^ idx)
    }

    pub fn next(&mut self) -> u64 {
        let r = self.s[1].wrapping_mul(5).rotate_left(7).wrapping_mul(9);
        let t = self.s[1] << 17;
        self.s[2] ^= self.s[0];
        self.s[3] ^= self.s[1];
        self.s[1] ^= self.s[2];
        self.s[0] ^= self.s[3];
        self.s[2] ^= t;
        self.s[3] = self.s[3].rotate_left(45);
        r
    }

    /// uniform in 0..n (n > 0)
    pub fn below(&mut self, n: u64) -> u64 {
        if n <= 1 {
            return 0;
        }
        // multiply-shift; bias is irrelevant here
        ((self.next() as u128 * n as u128) >> 64) as u64
    }

    pub fn usize_in(&mut self, lo: usize, hi_incl: usize) -> usize {
        lo + self.below((hi_incl - lo + 1) as u64) as usize
    }

    pub fn chance(&mut self, num: u64, den: u64) -> bool {
        self.below(den) < num
    }

    pub fn pick<'a, T>(&mut self, v: &'a [T]) -> &'a T {
        &v[self.below(v.len() as u64) as usize]
    }

    pub fn bytes(&mut self, n: usize) -> Vec<u8> {
        let mut v = Vec::with_capacity(n);
        while v.len() < n {
            let x = self.next().to_le_bytes();
            let take = (n - v.len()).min(8);
            v.extend_from_slice(&x[..take]);
        }
        v
    }

    pub fn fork(&mut self) -> Rng {
        Rng::new(self.next())
    }
}
