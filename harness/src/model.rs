//! Ground truth for whole exchanges: the server stream is rendered from a structured
//! description, so the oracle knows every length, payload and field without parsing.

use crate::drive::{ReqCfg, Scen, Ver};
use crate::rng::Rng;
use crate::wire::*;

#[derive(Clone, Debug, PartialEq, Eq)]
pub enum Handshake {
    /// no Expect header
    None,
    /// server answers 100 while the client waits
    Got100,
    /// nothing arrives; client gives up after k looks and sends the body
    GiveUp(usize),
    /// nothing arrives in time; the 100 shows up after the body was sent
    Late100(usize),
    /// server answers with the final response instead of 100
    Refused,
}

#[derive(Clone, Debug)]
pub enum BodyPlan {
    /// no framing headers
    Bare,
    Length(Vec<u8>),
    Chunked(ChunkPlan, u8),
    /// declared Content-Length larger than what... never used for well-formed streams
    LengthZero,
}

#[derive(Clone, Debug)]
pub struct Exchange {
    pub cfg: ReqCfg,
    pub req_body: Vec<u8>,
    pub handshake: Handshake,
    pub interim_reason: &'static str,
    pub head: RespHead,
    pub body: BodyPlan,
    /// bytes for a close-delimited body if the rules make it one
    pub close_data: Vec<u8>,
    /// further bare 100 responses right behind the first one (only with Late100)
    pub extra_interim: usize,
    /// bare 100 responses nobody asked for, right in front of the final response (after any
    /// handshake traffic): each is handed to the caller as a response, the flow stays in RecvResponse
    pub unsolicited_100: usize,
}

#[derive(Clone, Debug)]
pub struct Truth {
    pub interim_len: usize,
    pub head_len: usize,
    pub fields: Vec<(String, Vec<u8>)>,
    pub framing: Framing,
    pub rule: &'static str,
    pub body_data: Vec<u8>,
    pub coded: Option<Coded>,
    /// length of interim + head + body coding
    pub total_len: usize,
    pub terminal: &'static str,
    pub must_close: bool,
    pub close_bits: [bool; 5],
    pub body_sent: bool,
    pub path: Vec<&'static str>,
    pub scen: Scen,
}

impl Exchange {
    /// Render the server bytes of this exchange and compute what must be observed.
    /// Returns None when the description hits a don't-care cell of the framing rule.
    pub fn render(&self) -> Option<(Vec<u8>, Truth)> {
        let mut head = self.head.clone();
        match &self.body {
            BodyPlan::Bare => {}
            BodyPlan::Length(d) => head.fields.push(Field::new("Content-Length", d.len().to_string().as_bytes())),
            BodyPlan::LengthZero => head.fields.push(Field::new("Content-Length", b"0")),
            BodyPlan::Chunked(..) => {
                // the coding is announced in one of several legal spellings (lists, optional blanks and tabs, case)
                let spelling: &[u8] = [&b"chunked"[..], b"chunked", b"gzip,\tchunked", b"Chunked", b"gzip, chunked", b"chunked", b"deflate ,\t chunked"][(head.status as usize + head.fields.len() + self.req_body.len()) % 7];
                head.fields.push(Field::new("Transfer-Encoding", spelling))
            }
        }
        let get = |name: &str| head.fields.iter().find(|f| f.name.eq_ignore_ascii_case(name)).map(|f| f.value.clone());
        let cl = get("content-length");
        let te = get("transfer-encoding");
        let exp = body_rule(
            self.cfg.method,
            head.status,
            head.http10,
            classify_cl(cl.as_deref()),
            classify_te(te.as_deref()),
        );
        let (framing, rule) = match exp {
            FrameExp::Is(f, r) => (f, r),
            _ => return None,
        };
        let mut stream = Vec::new();
        let interim = format!("HTTP/1.1 100 {}\r\n\r\n", self.interim_reason).into_bytes();
        let interim_len = match self.handshake {
            Handshake::Got100 | Handshake::Late100(_) => {
                stream.extend_from_slice(&interim);
                let mut n = interim.len();
                if matches!(self.handshake, Handshake::Late100(_)) {
                    for _ in 0..self.extra_interim {
                        stream.extend_from_slice(&interim);
                        n += interim.len();
                    }
                }
                n
            }
            _ => 0,
        };
        let mut interim_len = interim_len;
        if self.handshake != Handshake::Refused {
            for _ in 0..self.unsolicited_100 {
                let u = b"HTTP/1.1 100 Continue\r\n\r\n";
                stream.extend_from_slice(u);
                interim_len += u.len();
            }
        }
        let hb = head.render();
        stream.extend_from_slice(&hb);
        let mut coded = None;
        let body_data: Vec<u8> = match (framing, &self.body) {
            (Framing::NoBody, _) => vec![],
            (Framing::Length(n), BodyPlan::Length(d)) => {
                assert_eq!(n as usize, d.len());
                stream.extend_from_slice(d);
                d.clone()
            }
            (Framing::Length(0), _) => vec![],
            (Framing::Chunked, BodyPlan::Chunked(plan, salt)) => {
                let c = encode_plan(plan, *salt);
                stream.extend_from_slice(&c.bytes);
                let d = c.data.clone();
                coded = Some(c);
                d
            }
            (Framing::Close, _) => {
                // a chunked plan on an HTTP/1.0 response is just opaque bytes until close
                let d = match &self.body {
                    BodyPlan::Chunked(plan, salt) => encode_plan(plan, *salt).bytes,
                    _ => self.close_data.clone(),
                };
                stream.extend_from_slice(&d);
                d
            }
            other => panic!("generator bug: framing/body mismatch {:?}", other.0),
        };
        let total_len = stream.len();
        let expect = self.cfg.expect_100() && self.cfg.sends_body();
        let refused = self.handshake == Handshake::Refused;
        let body_sent = self.cfg.sends_body() && !refused;
        let b1 = self.cfg.ver == Ver::V10;
        let b2 = self.cfg.orig.iter().any(|(n, v)| n.eq_ignore_ascii_case("connection") && v == b"close");
        let b3 = head.fields.iter().any(|f| f.name.eq_ignore_ascii_case("connection") && f.value == b"close");
        let b4 = refused;
        let b5 = framing == Framing::Close;
        let has_body_state = successor(framing, head.status) == "RecvBody";
        let terminal = if is_redirect_status(head.status) { "Redirect" } else { "Cleanup" };
        let mut path = vec!["Prepare", "SendRequest"];
        if self.cfg.sends_body() {
            if expect {
                path.push("Await100");
            }
            if body_sent {
                path.push("SendBody");
            }
        }
        path.push("RecvResponse");
        if has_body_state {
            path.push("RecvBody");
        }
        if terminal == "Redirect" {
            path.push("Redirect");
        }
        path.push("Cleanup");
        let scen = match self.handshake {
            Handshake::GiveUp(k) | Handshake::Late100(k) => Scen::GiveUpNoData(k),
            _ => Scen::Decide,
        };
        Some((
            stream,
            Truth {
                interim_len,
                head_len: hb.len(),
                fields: expected_fields(&head),
                framing,
                rule,
                body_data,
                coded,
                total_len,
                terminal,
                must_close: b1 || b2 || b3 || b4 || b5,
                close_bits: [b1, b2, b3, b4, b5],
                body_sent,
                path,
                scen,
            },
        ))
    }
}

pub const BIT_NAMES: [&str; 5] = ["req-http10", "req-connection-close", "resp-connection-close", "refused-100", "close-delimited"];

/// Which of the five conditions a reason text names (lenient: the wording is not part of the property).
pub fn reason_bit(text: &str) -> Option<usize> {
    let t = text.to_ascii_lowercase();
    if t.contains("client") {
        Some(1)
    } else if t.contains("server") {
        Some(2)
    } else if t.contains("100") {
        Some(3)
    } else if t.contains("delimited") {
        Some(4)
    } else if t.contains("1.0") || t.contains("http10") || t.contains("http/1.0") || t.contains("http1.0") {
        Some(0)
    } else {
        None
    }
}

// ------------------------------------------------------------------ random well-formed exchanges

pub const HOSTS: [&str; 3] = ["a.test", "b.test", "c.example"];

pub fn random_fields(rng: &mut Rng, max: usize, tag: &str) -> Vec<Field> {
    let n = rng.usize_in(0, max);
    let names = ["X-A", "x-b", "Set-Cookie", "Vary", "ETag", "X-Long-Header-Name-For-Testing", "Date", "Server", "Via"];
    (0..n)
        .map(|i| {
            let mut v = format!("{}-{}", tag, i).into_bytes();
            match rng.below(8) {
                0 => v.clear(),
                1 => v.extend_from_slice(b" inner space;\tq=0.5"),
                2 => v.extend_from_slice(&[0xe9, 0xff, 0x80]),
                3 => v.extend_from_slice(&vec![b'z'; rng.usize_in(50, 300)]),
                _ => {}
            }
            Field {
                name: rng.pick(&names).to_string(),
                value: v,
                lead: *rng.pick(&[" ", " ", "", "  ", "\t", " \t "]),
                trail: *rng.pick(&["", "", "", " ", "\t", " \t"]),
            }
        })
        .collect()
}

pub fn random_status(rng: &mut Rng) -> u16 {
    match rng.below(10) {
        0 => *rng.pick(&[101u16, 102, 199]),
        1 => *rng.pick(&[204u16, 304]),
        2 | 3 => *rng.pick(&[301u16, 302, 303, 307, 308, 300, 399]),
        4 => rng.usize_in(400, 599) as u16,
        5 => rng.usize_in(101, 999) as u16,
        _ => *rng.pick(&[200u16, 200, 201, 205, 206, 299]),
    }
}

/// Request configuration over the quantifier of C01/C09: method, version, framing, Expect.
pub fn random_req(rng: &mut Rng, body_max: usize) -> (ReqCfg, Vec<u8>) {
    let method = *rng.pick(&crate::drive::METHODS);
    let mut cfg = ReqCfg::new(method, &format!("http://{}/p{}?q={}", rng.pick(&HOSTS), rng.below(100), rng.below(10)));
    if crate::drive::http10_method(method) && rng.chance(1, 3) {
        cfg.ver = Ver::V10;
    }
    if rng.chance(1, 5) {
        cfg.orig.push(("connection".into(), rng.pick(&[&b"close"[..], &b"keep-alive"[..]]).to_vec()));
    }
    if rng.chance(1, 2) {
        cfg.orig.push(("x-req".into(), b"v1".to_vec()));
    }
    if rng.chance(1, 3) {
        cfg.added.push(("cookie".into(), b"k=v".to_vec()));
    }
    if rng.chance(1, 4) {
        // headers a redirect will not carry over, possibly as several fields of the same name
        for i in 0..rng.usize_in(1, 3) {
            cfg.orig.push(("cookie".into(), format!("c{}=v", i).into_bytes()));
        }
        if rng.chance(1, 2) {
            for i in 0..rng.usize_in(1, 2) {
                cfg.orig.push(("authorization".into(), format!("Basic cred{}", i).into_bytes()));
            }
        }
    }
    let mut body = vec![];
    if rng.chance(1, 6) {
        // an explicit Host header (then the library must not add its own)
        let h = split_uri(&cfg.uri);
        cfg.orig.push(("host".into(), host_of(&h).into_bytes()));
    }
    if crate::drive::needs_body(method) && rng.chance(1, 6) {
        // despite-method on a method that has a body anyway: must be a no-op
        cfg.despite = true;
        cfg.despite_twice = rng.chance(1, 2);
    }
    if crate::drive::needs_body(method) || (rng.chance(1, 8) && {
        cfg.despite = true;
        cfg.despite_twice = rng.chance(1, 3);
        true
    }) {
        let n = match rng.below(6) {
            0 => 0,
            1 => rng.usize_in(1, 20),
            2 => rng.usize_in(10_200, 10_300).min(body_max),
            _ => rng.usize_in(0, body_max),
        };
        body = payload(n, rng.below(250) as u8);
        match rng.below(3) {
            0 => cfg.orig.push(("content-length".into(), n.to_string().into_bytes())),
            1 => cfg.orig.push(("transfer-encoding".into(), rng.pick(&[&b"chunked"[..], &b"chunked"[..], &b"Chunked"[..], &b"CHUNKED"[..]]).to_vec())),
            _ => {}
        }
        if rng.chance(1, 3) {
            cfg.orig.push(("expect".into(), b"100-continue".to_vec()));
        }
    } else if rng.chance(1, 12) {
        // an expectation on a request that sends no body: nothing is awaited, the head is followed by the
        // response, and a 100 the server sends anyway is passed over once
        cfg.orig.push(("expect".into(), b"100-continue".to_vec()));
    }
    (cfg, body)
}

pub fn random_response(rng: &mut Rng, body_max: usize, allow_close: bool, tag: &str) -> (RespHead, BodyPlan, Vec<u8>) {
    let mut head = RespHead::new(rng.chance(1, 4), random_status(rng));
    head.reason = rng.pick(&[&b"OK"[..], &b""[..], &b"Not Found"[..], &b"Moved Permanently"[..], &b"a long reason phrase with\ttab and \xe9"[..]]).to_vec();
    head.fields = random_fields(rng, 6, tag);
    if is_redirect_status(head.status) && rng.chance(5, 6) {
        let at = rng.usize_in(0, head.fields.len());
        // (now and then a value that is not text: the exchange itself is unaffected, only following fails)
        head.fields.insert(at, Field::new("Location", match rng.below(8) { 0 => &b"/n\xe9xt"[..], 1 | 2 => &b"http://elsewhere.test/next?x=1"[..], _ => &b"/next"[..] }));
    }
    if rng.chance(1, 5) {
        let at = rng.usize_in(0, head.fields.len());
        head.fields.insert(at, Field::new("Connection", *rng.pick(&[&b"close"[..], &b"keep-alive"[..]])));
    }
    let n = match rng.below(6) {
        0 => 0,
        1 => rng.usize_in(1, 12),
        _ => rng.usize_in(0, body_max),
    };
    let plan = match rng.below(if allow_close { 4 } else { 3 }) {
        0 => BodyPlan::Length(payload(n, rng.below(250) as u8)),
        1 => {
            if head.http10 {
                // chunked is not defined for HTTP/1.0 responses: a well-formed 1.0 server uses a length
                BodyPlan::Length(payload(n, rng.below(250) as u8))
            } else {
                BodyPlan::Chunked(random_plan(rng, 3, body_max.max(1) / 2 + 1), rng.below(250) as u8)
            }
        }
        2 => BodyPlan::LengthZero,
        _ => BodyPlan::Bare,
    };
    let close_data = payload(n, 17);
    (head, plan, close_data)
}

// ------------------------------------------------------------------ head generators for C05 / C20

pub const TOKEN_EXTRA: &[u8] = b"!#$%&'*+-.^_`|~";

pub fn random_token(rng: &mut Rng, max: usize) -> String {
    let n = rng.usize_in(1, max);
    (0..n)
        .map(|i| {
            let c = match rng.below(12) {
                0 => *rng.pick(TOKEN_EXTRA),
                1 => b'0' + rng.below(10) as u8,
                2 => b'A' + rng.below(26) as u8,
                _ => b'a' + rng.below(26) as u8,
            };
            // keep the first char a letter so that it never looks like something else
            if i == 0 && !c.is_ascii_alphabetic() {
                'x'
            } else {
                c as char
            }
        })
        .collect()
}

/// A well-formed response head with exactly `nfields` fields. Status 100 is never produced.
pub fn gen_resp_head(rng: &mut Rng, nfields: usize, force_3xx_location: bool) -> RespHead {
    let status = if force_3xx_location {
        *rng.pick(&[300u16, 301, 302, 303, 305, 307, 308, 399])
    } else {
        match rng.below(6) {
            0 => rng.usize_in(101, 199) as u16,
            1 => rng.usize_in(101, 999) as u16,
            2 => *rng.pick(&[301u16, 302, 307, 308, 304]),
            _ => *rng.pick(&[200u16, 200, 204, 206, 404, 500, 999]),
        }
    };
    let mut head = RespHead::new(rng.chance(1, 3), status);
    head.reason = match rng.below(6) {
        0 => vec![],
        1 => vec![b'R'; rng.usize_in(100, 400)],
        2 => b"obs \xe9\xff text\tand tab".to_vec(),
        _ => b"OK".to_vec(),
    };
    let pool = ["Content-Type", "Set-Cookie", "set-cookie", "X-A", "x-a", "Vary", "ETag", "Cache-Control", "Connection", "Server"];
    for i in 0..nfields {
        let name = if rng.chance(1, 4) { random_token(rng, 24) } else { rng.pick(&pool).to_string() };
        let mut value = format!("v{}", i).into_bytes();
        match rng.below(10) {
            0 => value.clear(),
            1 => value.extend_from_slice(b" two  words\tand;params=\"q\""),
            2 => value.extend_from_slice(&[0x80, 0xfe, 0xff]),
            3 => value.extend_from_slice(&vec![b'v'; rng.usize_in(30, 300)]),
            4 => value.extend_from_slice(b": looks: like: header"),
            _ => {}
        }
        head.fields.push(Field {
            name,
            value,
            lead: *rng.pick(&[" ", " ", " ", "", "  ", "\t", " \t "]),
            trail: *rng.pick(&["", "", "", " ", "\t", "  \t"]),
        });
    }
    if nfields >= 2 && rng.chance(1, 3) {
        // fields the client itself interprets, in shapes a parser must hand on untouched: the same
        // Content-Length on several lines, a coding list spread over two lines, both Connection
        // options, both framing fields
        let a = rng.usize_in(0, nfields - 1);
        let mut b = rng.usize_in(0, nfields - 1);
        if b == a {
            b = (a + 1) % nfields;
        }
        let (n1, v1, n2, v2): (&str, &[u8], &str, &[u8]) = match rng.below(12) {
            // (a length padded with zeros to a fixed width; well-known tokens in other than lower case: handed on
            // as they stand)
            9 => ("Content-Length", b"000000000000000000012", "X-Width", b"21"),
            10 => ("Connection", b"Keep-Alive", "Transfer-Encoding", b"Chunked"),
            11 => ("Accept", b"*/*", "TE", b"GZIP"),
            // (values that are not text - obs-text is legal field content - and an Expect field: a parser hands
            // them on like any other field, whatever the client makes of them)
            6 => ("Transfer-Encoding", b"gz\xefp", "Connection", b"cl\xf6se"),
            7 => ("Expect", b"100-continue", "expect", b"100-continue"),
            8 => ("transfer-encoding", b"\xe9", "Location", b"/n\xe9xt"),
            0 => ("Content-Length", b"5", "content-length", b"5"),
            1 => ("content-length", b"0", "Content-Length", b"0"),
            2 => ("Transfer-Encoding", b"gzip", "Transfer-Encoding", b"chunked"),
            3 => ("transfer-encoding", b"chunked", "Transfer-Encoding", b"chunked"),
            4 => ("Connection", b"close", "connection", b"keep-alive"),
            _ => ("Content-Length", b"12", "Transfer-Encoding", b"chunked"),
        };
        head.fields[a].name = n1.into();
        head.fields[a].value = v1.to_vec();
        head.fields[b].name = n2.into();
        head.fields[b].value = v2.to_vec();
        if nfields >= 3 && rng.chance(1, 3) {
            // and a third copy of the first one
            let c = (0..nfields).find(|i| *i != a && *i != b).unwrap();
            head.fields[c].name = n1.to_ascii_uppercase();
            head.fields[c].value = v1.to_vec();
        }
    }
    if !force_3xx_location && (300..400).contains(&status) && nfields >= 2 && rng.chance(1, 2) {
        // redirects mostly come with a Location, and now and then say keep-alive
        let at = rng.usize_in(0, nfields - 1);
        head.fields[at].name = (*rng.pick(&["Location", "location"])).to_string();
        head.fields[at].value = b"/elsewhere".to_vec();
        let other = (at + 1) % nfields;
        head.fields[other].name = "Connection".into();
        head.fields[other].value = b"keep-alive".to_vec();
    }
    if force_3xx_location && nfields >= 1 {
        // a Location somewhere, with more fields after it when there is room
        let at = rng.usize_in(0, nfields.saturating_sub(2).min(nfields - 1));
        head.fields[at].name = (*rng.pick(&["Location", "location", "LOCATION"])).to_string();
        head.fields[at].value = b"/moved/here".to_vec();
        // make the lost-field scenario concrete
        if at + 1 < nfields {
            head.fields[at + 1].name = "Set-Cookie".into();
            head.fields[at + 1].value = b"session=1".to_vec();
        }
    }
    // an empty value with trailing whitespace is still an empty value
    head
}

pub fn field_count_choice(rng: &mut Rng) -> usize {
    match rng.below(10) {
        0 => 0,
        1 => 1,
        2 => 128,
        3 => 127,
        4 => rng.usize_in(100, 128),
        _ => rng.usize_in(0, 12),
    }
}

pub fn random_tail(rng: &mut Rng) -> Vec<u8> {
    match rng.below(6) {
        0 => vec![],
        1 => b"HTTP/1.1 200 OK\r\nContent-Length: 0\r\n\r\n".to_vec(),
        2 => b"\r\n\r\n".to_vec(),
        3 => rng.bytes(40),
        4 => b"5\r\nhello\r\n0\r\n\r\n".to_vec(),
        _ => b"body bytes: not a header\r\n".to_vec(),
    }
}

/// Prefix lengths to try for a head of `len` bytes with token boundaries `bounds`:
/// all of them when short or `all`, else every boundary +-2, the first 20, the last 120 and 150 random ones.
pub fn prefix_set(rng: &mut Rng, len: usize, bounds: &[usize], all: bool) -> Vec<usize> {
    if all || len <= 700 {
        return (0..len).collect();
    }
    let mut v: Vec<usize> = (0..20).collect();
    v.extend(len - 120..len);
    for b in bounds {
        for d in 0..5usize {
            let p = (*b + d).saturating_sub(2);
            if p < len {
                v.push(p);
            }
        }
    }
    for _ in 0..150 {
        v.push(rng.usize_in(0, len - 1));
    }
    v.sort();
    v.dedup();
    v
}

/// Offsets where a token of the rendered head ends (status line parts, names, colons, values, CR, LF).
pub fn head_boundaries(h: &RespHead) -> Vec<usize> {
    let mut v = vec![8, 9, 12, 13];
    let mut p = 13 + h.reason.len();
    v.push(p);
    v.push(p + 1);
    p += 2;
    v.push(p);
    for f in &h.fields {
        p += f.name.len();
        v.push(p);
        p += 1;
        v.push(p);
        p += f.lead.len();
        v.push(p);
        p += f.value.len();
        v.push(p);
        p += f.trail.len();
        v.push(p);
        v.push(p + 1);
        p += 2;
        v.push(p);
    }
    v.push(p + 1);
    v.push(p + 2);
    v
}
