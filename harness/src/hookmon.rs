//! Sink for the in-crate hooks (feature `verif-hooks` of ureq-proto).
//!
//! Lives in the same thread as the flow it shadows (thread local), so the monitor
//! cannot itself become a race. Three jobs:
//!  * typestate invariant at every `Flow::wrap` (holder variant must match the state),
//!  * logical step budget per public call (bounded restatement of "does not hang"),
//!  * honest coverage numbers: which loops / decoder transitions / head phases ran.

use std::cell::RefCell;
use std::collections::BTreeMap;

use ureq_proto::verif_hooks::{self, Event};

#[derive(Default)]
pub struct HookState {
    /// (kind, a, b) -> count; tiny linear table, the key set is a few dozen static strings
    pub counts: Vec<((&'static str, &'static str, &'static str), u64)>,
    pub ticks: u64,
    pub budget: u64,
    pub flow_violation: Option<String>,
    pub path: Vec<&'static str>,
    pub partial_redirects_case: u64,
    pub last_close_reasons: Vec<&'static str>,
}

thread_local! {
    static HK: RefCell<HookState> = RefCell::new(HookState { budget: u64::MAX, ..Default::default() });
}

pub const TICK_PANIC: &str = "TICK-BUDGET";

fn bump(st: &mut HookState, kind: &'static str, a: &'static str, b: &'static str) {
    for e in st.counts.iter_mut() {
        if e.0 .0 == kind && e.0 .1 == a && e.0 .2 == b {
            e.1 += 1;
            return;
        }
    }
    st.counts.push(((kind, a, b), 1));
}

pub fn install() {
    verif_hooks::set_sink(|ev: &Event| {
        let mut over: Option<String> = None;
        HK.with(|h| {
            let mut st = h.borrow_mut();
            match ev {
                Event::Tick { site } => {
                    st.ticks += 1;
                    bump(&mut st, "tick", site, "");
                    if st.ticks > st.budget {
                        over = Some(format!(
                            "{} site={} ticks={} budget={}",
                            TICK_PANIC, site, st.ticks, st.budget
                        ));
                        // one report per arming
                        st.budget = u64::MAX;
                    }
                }
                Event::Dechunk { from, to } => {
                    bump(&mut st, "dechunk", from, to);
                }
                Event::Phase { name, index } => {
                    let ic = match *index {
                        0 => "0",
                        1 => "1",
                        2..=9 => "2-9",
                        _ => "10+",
                    };
                    bump(&mut st, "phase", name, ic);
                }
                Event::PartialRedirect => {
                    st.partial_redirects_case += 1;
                    bump(&mut st, "partial_redirect", "", "");
                }
                Event::FlowState {
                    state,
                    holder,
                    writer,
                    should_send_body,
                    await_100: _,
                    close_reasons,
                } => {
                    bump(&mut st, "flow", state, holder);
                    st.path.push(state);
                    st.last_close_reasons = close_reasons.clone();
                    let has_body = writer.map(|w| w.0).unwrap_or(false);
                    let ok = match *state {
                        "Prepare" | "SendRequest" => matches!(*holder, "WithoutBody" | "WithBody"),
                        "Await100" | "SendBody" => *holder == "WithBody" && has_body && *should_send_body,
                        "RecvResponse" => *holder == "RecvResponse",
                        "RecvBody" | "Redirect" | "Cleanup" => *holder == "RecvBody",
                        _ => false,
                    };
                    if !ok && st.flow_violation.is_none() {
                        st.flow_violation = Some(format!(
                            "state={} holder={} writer(has_body,chunked,ended)={:?} should_send_body={}",
                            state, holder, writer, should_send_body
                        ));
                    }
                }
            }
        });
        if let Some(m) = over {
            panic!("{}", m);
        }
    });
}

/// Reset the step counter and set the budget for the next public call.
pub fn arm(budget: u64) {
    HK.with(|h| {
        let mut st = h.borrow_mut();
        st.ticks = 0;
        st.budget = budget;
    });
}

pub fn disarm() {
    arm(u64::MAX);
}

pub fn ticks() -> u64 {
    HK.with(|h| h.borrow().ticks)
}

pub fn begin_case() {
    HK.with(|h| {
        let mut st = h.borrow_mut();
        st.ticks = 0;
        st.budget = u64::MAX;
        st.flow_violation = None;
        st.path.clear();
        st.partial_redirects_case = 0;
        st.last_close_reasons.clear();
    });
}

pub fn take_flow_violation() -> Option<String> {
    HK.with(|h| h.borrow_mut().flow_violation.take())
}

pub fn path() -> Vec<&'static str> {
    HK.with(|h| h.borrow().path.clone())
}

pub fn partial_redirects_in_case() -> u64 {
    HK.with(|h| h.borrow().partial_redirects_case)
}

pub fn last_close_reasons() -> Vec<&'static str> {
    HK.with(|h| h.borrow().last_close_reasons.clone())
}

pub fn take_counts() -> BTreeMap<String, u64> {
    HK.with(|h| {
        let v = std::mem::take(&mut h.borrow_mut().counts);
        v.into_iter()
            .map(|((k, a, b), n)| {
                let key = match (a, b) {
                    ("", "") => k.to_string(),
                    (a, "") => format!("{}:{}", k, a),
                    (a, b) if k == "dechunk" => format!("{}:{}->{}", k, a, b),
                    (a, b) => format!("{}:{}:{}", k, a, b),
                };
                (key, n)
            })
            .collect()
    })
}
