//! Minimal JSON value, writer and parser (no external crates are available offline).

use std::collections::BTreeMap;
use std::fmt::Write;

#[derive(Debug, Clone, PartialEq)]
pub enum J {
    Null,
    Bool(bool),
    Int(i64),
    Num(f64),
    Str(String),
    Arr(Vec<J>),
    Obj(Vec<(String, J)>),
}

impl J {
    pub fn obj(items: Vec<(&str, J)>) -> J {
        J::Obj(items.into_iter().map(|(k, v)| (k.to_string(), v)).collect())
    }
    pub fn s(v: impl Into<String>) -> J {
        J::Str(v.into())
    }
    pub fn i(v: impl TryInto<i64>) -> J {
        J::Int(v.try_into().unwrap_or(i64::MAX))
    }
    pub fn arr_s<I: IntoIterator<Item = S>, S: Into<String>>(v: I) -> J {
        J::Arr(v.into_iter().map(|s| J::Str(s.into())).collect())
    }
    pub fn from_map(m: &BTreeMap<String, u64>) -> J {
        J::Obj(m.iter().map(|(k, v)| (k.clone(), J::i(*v))).collect())
    }
    pub fn get(&self, key: &str) -> Option<&J> {
        match self {
            J::Obj(v) => v.iter().find(|(k, _)| k == key).map(|(_, v)| v),
            _ => None,
        }
    }
    pub fn as_str(&self) -> Option<&str> {
        match self {
            J::Str(s) => Some(s),
            _ => None,
        }
    }
    pub fn as_u64(&self) -> Option<u64> {
        match self {
            J::Int(i) if *i >= 0 => Some(*i as u64),
            J::Str(s) => s.parse().ok(),
            _ => None,
        }
    }
    pub fn as_arr(&self) -> Option<&[J]> {
        match self {
            J::Arr(a) => Some(a),
            _ => None,
        }
    }

    pub fn render(&self) -> String {
        let mut s = String::new();
        self.write(&mut s, 0, true);
        s
    }
    pub fn render_compact(&self) -> String {
        let mut s = String::new();
        self.write(&mut s, 0, false);
        s
    }

    fn write(&self, out: &mut String, ind: usize, pretty: bool) {
        match self {
            J::Null => out.push_str("null"),
            J::Bool(b) => out.push_str(if *b { "true" } else { "false" }),
            J::Int(i) => {
                let _ = write!(out, "{}", i);
            }
            J::Num(f) => {
                if f.is_finite() {
                    let _ = write!(out, "{:.3}", f);
                } else {
                    out.push_str("0");
                }
            }
            J::Str(s) => write_str(out, s),
            J::Arr(a) => {
                if a.is_empty() {
                    out.push_str("[]");
                    return;
                }
                // short arrays of scalars stay on one line
                let scalar = a.iter().all(|v| !matches!(v, J::Arr(_) | J::Obj(_)));
                out.push('[');
                for (i, v) in a.iter().enumerate() {
                    if i > 0 {
                        out.push(',');
                    }
                    if pretty && !scalar {
                        out.push('\n');
                        push_ind(out, ind + 1);
                    } else if i > 0 && pretty {
                        out.push(' ');
                    }
                    v.write(out, ind + 1, pretty);
                }
                if pretty && !scalar {
                    out.push('\n');
                    push_ind(out, ind);
                }
                out.push(']');
            }
            J::Obj(o) => {
                if o.is_empty() {
                    out.push_str("{}");
                    return;
                }
                out.push('{');
                for (i, (k, v)) in o.iter().enumerate() {
                    if i > 0 {
                        out.push(',');
                    }
                    if pretty {
                        out.push('\n');
                        push_ind(out, ind + 1);
                    }
                    write_str(out, k);
                    out.push(':');
                    if pretty {
                        out.push(' ');
                    }
                    v.write(out, ind + 1, pretty);
                }
                if pretty {
                    out.push('\n');
                    push_ind(out, ind);
                }
                out.push('}');
            }
        }
    }
}

fn push_ind(out: &mut String, n: usize) {
    for _ in 0..n {
        out.push(' ');
    }
}

fn write_str(out: &mut String, s: &str) {
    out.push('"');
    for c in s.chars() {
        match c {
            '"' => out.push_str("\\\""),
            '\\' => out.push_str("\\\\"),
            '\n' => out.push_str("\\n"),
            '\r' => out.push_str("\\r"),
            '\t' => out.push_str("\\t"),
            c if (c as u32) < 0x20 => {
                let _ = write!(out, "\\u{:04x}", c as u32);
            }
            c => out.push(c),
        }
    }
    out.push('"');
}

/// Printable rendering of bytes for logs: ASCII kept, the rest as \xNN.
pub fn esc(b: &[u8]) -> String {
    let mut s = String::with_capacity(b.len() + 8);
    for &c in b {
        match c {
            b'\r' => s.push_str("\\r"),
            b'\n' => s.push_str("\\n"),
            b'\t' => s.push_str("\\t"),
            b'\\' => s.push_str("\\\\"),
            0x20..=0x7e => s.push(c as char),
            _ => {
                let _ = write!(s, "\\x{:02x}", c);
            }
        }
    }
    s
}

/// Like `esc` but abbreviates long inputs.
pub fn esc_short(b: &[u8], max: usize) -> String {
    if b.len() <= max {
        esc(b)
    } else {
        format!("{}...<{} bytes>...{}", esc(&b[..max / 2]), b.len(), esc(&b[b.len() - max / 2..]))
    }
}

pub fn hex(b: &[u8]) -> String {
    let mut s = String::with_capacity(b.len() * 2);
    for c in b {
        let _ = write!(s, "{:02x}", c);
    }
    s
}

// ------------------------------------------------------------------ parser

pub fn parse(src: &str) -> Result<J, String> {
    let b = src.as_bytes();
    let mut p = 0usize;
    let v = parse_val(b, &mut p)?;
    skip_ws(b, &mut p);
    if p != b.len() {
        return Err(format!("trailing data at {}", p));
    }
    Ok(v)
}

fn skip_ws(b: &[u8], p: &mut usize) {
    while *p < b.len() && (b[*p] as char).is_ascii_whitespace() {
        *p += 1;
    }
}

fn parse_val(b: &[u8], p: &mut usize) -> Result<J, String> {
    skip_ws(b, p);
    if *p >= b.len() {
        return Err("eof".into());
    }
    match b[*p] {
        b'{' => {
            *p += 1;
            let mut items = Vec::new();
            skip_ws(b, p);
            if b.get(*p) == Some(&b'}') {
                *p += 1;
                return Ok(J::Obj(items));
            }
            loop {
                skip_ws(b, p);
                let k = match parse_val(b, p)? {
                    J::Str(s) => s,
                    _ => return Err("key".into()),
                };
                skip_ws(b, p);
                if b.get(*p) != Some(&b':') {
                    return Err("colon".into());
                }
                *p += 1;
                let v = parse_val(b, p)?;
                items.push((k, v));
                skip_ws(b, p);
                match b.get(*p) {
                    Some(b',') => *p += 1,
                    Some(b'}') => {
                        *p += 1;
                        return Ok(J::Obj(items));
                    }
                    _ => return Err("obj".into()),
                }
            }
        }
        b'[' => {
            *p += 1;
            let mut items = Vec::new();
            skip_ws(b, p);
            if b.get(*p) == Some(&b']') {
                *p += 1;
                return Ok(J::Arr(items));
            }
            loop {
                items.push(parse_val(b, p)?);
                skip_ws(b, p);
                match b.get(*p) {
                    Some(b',') => *p += 1,
                    Some(b']') => {
                        *p += 1;
                        return Ok(J::Arr(items));
                    }
                    _ => return Err("arr".into()),
                }
            }
        }
        b'"' => {
            *p += 1;
            let mut s = String::new();
            loop {
                let c = *b.get(*p).ok_or("eof in string")?;
                *p += 1;
                match c {
                    b'"' => return Ok(J::Str(s)),
                    b'\\' => {
                        let e = *b.get(*p).ok_or("eof in escape")?;
                        *p += 1;
                        match e {
                            b'n' => s.push('\n'),
                            b'r' => s.push('\r'),
                            b't' => s.push('\t'),
                            b'b' => s.push('\u{8}'),
                            b'f' => s.push('\u{c}'),
                            b'u' => {
                                let h = std::str::from_utf8(b.get(*p..*p + 4).ok_or("eof in \\u")?)
                                    .map_err(|e| e.to_string())?;
                                let n = u32::from_str_radix(h, 16).map_err(|e| e.to_string())?;
                                s.push(char::from_u32(n).unwrap_or('?'));
                                *p += 4;
                            }
                            other => s.push(other as char),
                        }
                    }
                    _ => {
                        // copy the utf-8 sequence
                        let start = *p - 1;
                        let mut end = *p;
                        while end < b.len() && (b[end] & 0xC0) == 0x80 {
                            end += 1;
                        }
                        s.push_str(std::str::from_utf8(&b[start..end]).map_err(|e| e.to_string())?);
                        *p = end;
                    }
                }
            }
        }
        b't' if b[*p..].starts_with(b"true") => {
            *p += 4;
            Ok(J::Bool(true))
        }
        b'f' if b[*p..].starts_with(b"false") => {
            *p += 5;
            Ok(J::Bool(false))
        }
        b'n' if b[*p..].starts_with(b"null") => {
            *p += 4;
            Ok(J::Null)
        }
        _ => {
            let start = *p;
            while *p < b.len() && matches!(b[*p], b'-' | b'+' | b'.' | b'e' | b'E' | b'0'..=b'9') {
                *p += 1;
            }
            let t = std::str::from_utf8(&b[start..*p]).unwrap();
            if let Ok(i) = t.parse::<i64>() {
                Ok(J::Int(i))
            } else if let Ok(f) = t.parse::<f64>() {
                Ok(J::Num(f))
            } else {
                Err(format!("bad token at {}", start))
            }
        }
    }
}
