//! Drivers: push an exchange through the *public* API of ureq-proto under an I/O
//! segmentation schedule, following the documented caller protocol, and record a
//! boundary event log. Nothing here looks inside the crate.

use ureq_proto::client::flow::state::*;
use ureq_proto::client::flow::{
    Await100Result, Flow, RecvBodyResult, RecvResponseResult, SendRequestResult,
};
use ureq_proto::http::{HeaderValue, Method, Request, Response, Version};
use ureq_proto::{BodyMode, Error};

use crate::core::Rec;
use crate::hookmon;
use crate::json::{esc, esc_short};
use crate::rng::Rng;

pub type F<S> = Flow<(), S>;

pub const METHODS: [&str; 9] = [
    "GET", "HEAD", "POST", "PUT", "DELETE", "CONNECT", "OPTIONS", "TRACE", "PATCH",
];

pub fn needs_body(m: &str) -> bool {
    matches!(m, "POST" | "PUT" | "PATCH")
}

pub fn http10_method(m: &str) -> bool {
    matches!(m, "GET" | "HEAD" | "POST")
}

#[derive(Clone, Copy, Debug, PartialEq, Eq)]
pub enum Ver {
    V09,
    V10,
    V11,
    V2,
    V3,
}

impl Ver {
    pub fn to_http(self) -> Version {
        match self {
            Ver::V09 => Version::HTTP_09,
            Ver::V10 => Version::HTTP_10,
            Ver::V11 => Version::HTTP_11,
            Ver::V2 => Version::HTTP_2,
            Ver::V3 => Version::HTTP_3,
        }
    }
    pub fn token(self) -> &'static str {
        match self {
            Ver::V09 => "HTTP/0.9",
            Ver::V10 => "HTTP/1.0",
            Ver::V11 => "HTTP/1.1",
            Ver::V2 => "HTTP/2.0",
            Ver::V3 => "HTTP/3.0",
        }
    }
}

#[derive(Clone, Debug)]
pub struct ReqCfg {
    pub method: &'static str,
    pub ver: Ver,
    pub uri: String,
    /// headers of the original request, in insertion order
    pub orig: Vec<(String, Vec<u8>)>,
    /// headers added in the Prepare state, in order
    pub added: Vec<(String, Vec<u8>)>,
    pub despite: bool,
    /// call send_body_despite_method() a second time (must be harmless)
    pub despite_twice: bool,
}

impl ReqCfg {
    pub fn new(method: &'static str, uri: &str) -> ReqCfg {
        ReqCfg {
            method,
            ver: Ver::V11,
            uri: uri.to_string(),
            orig: vec![],
            added: vec![],
            despite: false,
            despite_twice: false,
        }
    }
    pub fn h(mut self, name: &str, value: &[u8]) -> ReqCfg {
        self.orig.push((name.to_string(), value.to_vec()));
        self
    }
    pub fn all_headers(&self) -> impl Iterator<Item = &(String, Vec<u8>)> {
        self.added.iter().chain(self.orig.iter())
    }
    pub fn has(&self, name: &str) -> bool {
        self.all_headers().any(|(n, _)| n.eq_ignore_ascii_case(name))
    }
    pub fn get(&self, name: &str) -> Option<&[u8]> {
        self.all_headers()
            .find(|(n, _)| n.eq_ignore_ascii_case(name))
            .map(|(_, v)| v.as_slice())
    }
    pub fn sends_body(&self) -> bool {
        needs_body(self.method) || self.despite
    }
    pub fn expect_100(&self) -> bool {
        // the crate looks at the original request only
        self.orig
            .iter()
            .any(|(n, v)| n.eq_ignore_ascii_case("expect") && v == b"100-continue")
    }
    /// Some(n) when the caller declared a Content-Length and no chunked coding.
    pub fn declared_len(&self) -> Option<u64> {
        if self.declared_chunked() {
            return None;
        }
        self.get("content-length")
            .and_then(|v| std::str::from_utf8(v).ok())
            .and_then(|s| s.parse::<u64>().ok())
    }
    pub fn declared_chunked(&self) -> bool {
        self.all_headers()
            .any(|(n, v)| n.eq_ignore_ascii_case("transfer-encoding") && v.eq_ignore_ascii_case(b"chunked"))
    }
    pub fn describe(&self) -> String {
        let hs = |v: &Vec<(String, Vec<u8>)>| {
            v.iter()
                .map(|(n, v)| format!("{}: {}", n, esc_short(v, 40)))
                .collect::<Vec<_>>()
                .join(" | ")
        };
        format!(
            "{} {} {} orig=[{}] added=[{}] despite={}",
            self.method,
            self.uri,
            self.ver.token(),
            hs(&self.orig),
            hs(&self.added),
            self.despite
        )
    }
}

pub fn build_request(cfg: &ReqCfg) -> Request<()> {
    let mut b = Request::builder()
        .method(Method::from_bytes(cfg.method.as_bytes()).unwrap())
        .uri(cfg.uri.as_str())
        .version(cfg.ver.to_http());
    for (n, v) in &cfg.orig {
        b = b.header(n.as_str(), HeaderValue::from_bytes(v).expect("generator makes valid values"));
    }
    b.body(()).expect("generator makes valid requests")
}

/// Flow in the Prepare state with the caller-added headers applied.
pub fn build_flow(cfg: &ReqCfg) -> Result<F<Prepare>, Error> {
    let mut flow = Flow::new(build_request(cfg))?;
    apply_prepare(&mut flow, cfg)?;
    Ok(flow)
}

pub fn apply_prepare(flow: &mut F<Prepare>, cfg: &ReqCfg) -> Result<(), Error> {
    for (n, v) in &cfg.added {
        flow.header(n.as_str(), HeaderValue::from_bytes(v).expect("valid value"))?;
    }
    if cfg.despite {
        flow.send_body_despite_method();
        if cfg.despite_twice {
            flow.send_body_despite_method();
        }
    }
    Ok(())
}

// ------------------------------------------------------------------ schedules

#[derive(Clone, Copy, Debug, PartialEq, Eq)]
pub enum Prof {
    /// one call does everything
    Big,
    /// one byte at a time
    One,
    /// 0..=12 bytes
    Tiny,
    /// boundary biased mixture
    Mixed,
    Fixed(usize),
}

pub const BIG: usize = 1 << 17;

impl Prof {
    pub fn name(&self) -> &'static str {
        match self {
            Prof::Big => "big",
            Prof::One => "one",
            Prof::Tiny => "tiny",
            Prof::Mixed => "mixed",
            Prof::Fixed(_) => "fixed",
        }
    }
    pub fn size(&self, rng: &mut Rng, hint: usize) -> usize {
        match self {
            Prof::Big => BIG,
            Prof::One => 1,
            Prof::Tiny => rng.usize_in(0, 12),
            Prof::Fixed(n) => *n,
            Prof::Mixed => match rng.below(10) {
                0 => *rng.pick(&[0usize, 1, 2, 3, 4]),
                1 => *rng.pick(&[5usize, 6, 7, 8, 9, 10, 11]),
                2 => rng.usize_in(15, 22),
                3 => hint.saturating_sub(1),
                4 => hint,
                5 => hint + 1,
                6 => hint + *rng.pick(&[5usize, 6, 7, 8]),
                7 => *rng.pick(&[64usize, 255, 256, 1024, 4096, 10240, 10248, BIG]),
                _ => rng.usize_in(0, 200),
            },
        }
    }
    /// how many more server bytes arrive before the next look
    pub fn arrival(&self, rng: &mut Rng, remaining: usize, hint: usize) -> usize {
        if remaining == 0 {
            return 0;
        }
        let n = match self {
            Prof::Big => remaining,
            Prof::One => 1,
            Prof::Tiny => rng.usize_in(0, 3),
            Prof::Fixed(n) => *n,
            Prof::Mixed => match rng.below(8) {
                0 => 0,
                1 => 1,
                2 => 2,
                3 => hint.saturating_sub(1).max(1),
                4 => hint.max(1),
                5 => hint + 1,
                6 => remaining,
                _ => rng.usize_in(1, 64),
            },
        };
        n.min(remaining)
    }
}

#[derive(Clone, Debug)]
pub struct Sched {
    pub rng: Rng,
    pub head_out: Prof,
    pub body_in: Prof,
    pub body_out: Prof,
    pub arrive: Prof,
    pub read_out: Prof,
    pub queries: bool,
    pub stop_on_boundary: bool,
    /// part of a length-delimited request body bypasses `write`: the caller puts the bytes on the
    /// wire itself and reports them with `consume_direct_write`
    pub direct: bool,
    /// while awaiting 100 the caller goes by what `try_read_100` returns - "Ok(0): not enough data yet,
    /// continue waiting", as its documentation says - and never asks `can_keep_await_100()`
    pub await_by_return: bool,
    /// on entering the receive state the caller switches the truncated-redirect opt-in on and straight off
    /// again, before any input: no trace may remain
    pub toggle_partial: bool,
    /// the truncated-redirect opt-in is switched on and stays on; the caller of `Sched::random` clears this for
    /// exchanges answered with a 3xx, so that for every exchange run with it the opt-in must not matter at all
    pub partial_on: bool,
    /// one more head write after the head is complete (a caller that writes until 0 comes back)
    pub extra_head_write: bool,
    /// explicit arrival points (offsets into the driver's server slice); empty = use `arrive`
    pub cuts: Vec<usize>,
}

impl Sched {
    pub fn big() -> Sched {
        Sched {
            rng: Rng::new(0),
            head_out: Prof::Big,
            body_in: Prof::Big,
            body_out: Prof::Big,
            arrive: Prof::Big,
            read_out: Prof::Big,
            queries: false,
            direct: false,
            await_by_return: false,
            toggle_partial: false,
            partial_on: false,
            extra_head_write: false,
            stop_on_boundary: false,
            cuts: vec![],
        }
    }
    pub fn random(rng: &mut Rng, small_payloads: bool) -> Sched {
        let profs: &[Prof] = if small_payloads {
            &[Prof::Big, Prof::One, Prof::Tiny, Prof::Mixed, Prof::Mixed, Prof::Mixed]
        } else {
            &[Prof::Big, Prof::Mixed, Prof::Mixed, Prof::Fixed(1000), Prof::Fixed(4096)]
        };
        Sched {
            head_out: *rng.pick(&[Prof::Big, Prof::Mixed, Prof::Mixed, Prof::Fixed(64), Prof::Fixed(128)]),
            body_in: *rng.pick(profs),
            // one in four schedules sends the body through a fixed buffer sitting on a boundary of the
            // chunk format: smallest chunk, hex digit boundaries 16/256/4096 plus overhead, chunk size
            body_out: if rng.chance(1, 4) {
                Prof::Fixed(*rng.pick(&[6usize, 7, 8, 20, 21, 22, 261, 262, 263, 4102, 4103, 4104, 10247, 10248, 10249]))
            } else {
                *rng.pick(profs)
            },
            arrive: *rng.pick(profs),
            read_out: *rng.pick(profs),
            queries: rng.chance(1, 2),
            stop_on_boundary: rng.chance(1, 3),
            direct: rng.chance(1, 4),
            await_by_return: rng.chance(1, 4),
            toggle_partial: rng.chance(1, 4),
            extra_head_write: rng.chance(1, 4),
            partial_on: false,
            rng: rng.fork(),
            cuts: vec![],
        }
    }
    pub fn describe(&self) -> String {
        format!(
            "head_out={} body_in={} body_out={} arrive={} read_out={} queries={} stop_on_boundary={} direct={} await_by_return={}",
            self.head_out.name(),
            self.body_in.name(),
            self.body_out.name(),
            self.arrive.name(),
            self.read_out.name(),
            self.queries,
            self.stop_on_boundary,
            self.direct,
            self.await_by_return
        )
    }
}

/// What the caller does while awaiting 100.
#[derive(Clone, Copy, Debug, PartialEq, Eq)]
pub enum Scen {
    /// keep looking at arriving bytes until the flow says there is no point waiting
    Decide,
    /// nothing arrives; give up after this many looks at an empty window
    GiveUpNoData(usize),
    /// bytes arrive up to this prefix of the stream (sliced), then the caller gives up
    GiveUpAt(usize),
}

// ------------------------------------------------------------------ AnyFlow

pub enum AnyFlow {
    Prepare(F<Prepare>),
    SendRequest(F<SendRequest>),
    Await100(F<Await100>),
    SendBody(F<SendBody>),
    RecvResponse(F<RecvResponse>),
    RecvBody(F<RecvBody>),
    Redirect(F<Redirect>),
    Cleanup(F<Cleanup>),
    Gone,
}

impl AnyFlow {
    pub fn name(&self) -> &'static str {
        match self {
            AnyFlow::Prepare(_) => "Prepare",
            AnyFlow::SendRequest(_) => "SendRequest",
            AnyFlow::Await100(_) => "Await100",
            AnyFlow::SendBody(_) => "SendBody",
            AnyFlow::RecvResponse(_) => "RecvResponse",
            AnyFlow::RecvBody(_) => "RecvBody",
            AnyFlow::Redirect(_) => "Redirect",
            AnyFlow::Cleanup(_) => "Cleanup",
            AnyFlow::Gone => "Gone",
        }
    }
}

#[derive(Clone, Debug, PartialEq)]
pub struct RespObs {
    pub status: u16,
    pub http10: bool,
    /// (lower-case name, value) in the order the response object iterates
    pub headers: Vec<(String, Vec<u8>)>,
}

pub fn observe_response(r: &Response<()>) -> RespObs {
    RespObs {
        status: r.status().as_u16(),
        http10: r.version() == Version::HTTP_10,
        headers: r
            .headers()
            .iter()
            .map(|(n, v)| (n.as_str().to_string(), v.as_bytes().to_vec()))
            .collect(),
    }
}

/// Same multiset with the same per-name order?
pub fn same_fields(expected: &[(String, Vec<u8>)], got: &[(String, Vec<u8>)]) -> Result<(), String> {
    if expected.len() != got.len() {
        return Err(format!("{} fields expected, {} reported", expected.len(), got.len()));
    }
    let mut names: Vec<&String> = expected.iter().map(|(n, _)| n).collect();
    names.sort();
    names.dedup();
    for n in names {
        let e: Vec<&Vec<u8>> = expected.iter().filter(|(k, _)| k == n).map(|(_, v)| v).collect();
        let g: Vec<&Vec<u8>> = got.iter().filter(|(k, _)| k == n).map(|(_, v)| v).collect();
        if e != g {
            return Err(format!(
                "field {:?}: expected values {:?}, reported {:?}",
                n,
                e.iter().map(|v| esc_short(v, 40)).collect::<Vec<_>>(),
                g.iter().map(|v| esc_short(v, 40)).collect::<Vec<_>>()
            ));
        }
    }
    Ok(())
}

#[derive(Clone, Debug, PartialEq)]
pub enum Mode {
    NoBody,
    Length(u64),
    Chunked,
    Close,
}

pub fn mode_of(m: BodyMode) -> Mode {
    match m {
        BodyMode::NoBody => Mode::NoBody,
        BodyMode::LengthDelimited(n) => Mode::Length(n),
        BodyMode::Chunked => Mode::Chunked,
        BodyMode::CloseDelimited => Mode::Close,
    }
}

// ------------------------------------------------------------------ the step machine

#[derive(Debug, Clone, PartialEq)]
pub enum Step {
    More,
    Done,
    /// the server stream ended before the exchange could complete
    Starved(&'static str),
    /// a call returned an error
    Failed { call: &'static str, err: String },
    /// the logical step cap was hit
    Capped,
}

pub struct Driver<'a> {
    pub flow: AnyFlow,
    pub cfg: &'a ReqCfg,
    pub req_body: &'a [u8],
    pub body_pos: usize,
    pub server: &'a [u8],
    pub arrived: usize,
    pub consumed: usize,
    pub scen: Scen,
    pub sched: Sched,
    pub hostile: bool,

    // observations at the public boundary
    pub head_out: Vec<u8>,
    pub body_out: Vec<u8>,
    pub resp: Option<RespObs>,
    pub resp_body: Vec<u8>,
    pub body_mode: Option<Mode>,
    pub path: Vec<&'static str>,
    pub verdicts: Vec<(&'static str, bool, Option<&'static str>)>,
    pub redirect_status: Option<u16>,
    pub steps: usize,
    pub looks: usize,
    pub head_calls: usize,
    /// how often a head write was refused with OutputOverflow
    pub head_overflows: usize,
    pub stall: usize,
    pub late_skips: usize,
    pub await_decided_at: Option<usize>,
    pub consumed_in_await: usize,
    pub chunk_reads: Vec<(usize, usize)>,
    pub max_steps: usize,
    pub finished_body_write_calls: usize,
    pub direct_writes: usize,
    looked_after_100: bool,
    wrote_after_head: bool,
    /// every look while awaiting 100: (window length offered, consumed, can_keep_await_100 afterwards)
    pub await_log: Vec<(usize, usize, bool)>,
    /// every try_response call: (window length offered, consumed, status if a response came back)
    pub response_log: Vec<(usize, usize, Option<u16>)>,
    /// stream offset at which the response body started
    pub body_start: usize,
    /// a body write with input >= 1 and output space >= 6 (>= 1 for a sized body) made no progress
    pub stalled_with_room: Option<(usize, usize)>,
}

impl<'a> Driver<'a> {
    pub fn new(flow: F<Prepare>, cfg: &'a ReqCfg, req_body: &'a [u8], server: &'a [u8], scen: Scen, sched: Sched) -> Driver<'a> {
        let max_steps = 8 * (server.len() + req_body.len()) + 4096;
        Driver {
            flow: AnyFlow::Prepare(flow),
            cfg,
            req_body,
            body_pos: 0,
            server,
            arrived: 0,
            consumed: 0,
            scen,
            sched,
            hostile: false,
            head_out: vec![],
            body_out: vec![],
            resp: None,
            resp_body: vec![],
            body_mode: None,
            path: vec!["Prepare"],
            verdicts: vec![],
            redirect_status: None,
            steps: 0,
            looks: 0,
            head_calls: 0,
            head_overflows: 0,
            stall: 0,
            late_skips: 0,
            await_decided_at: None,
            consumed_in_await: 0,
            chunk_reads: vec![],
            max_steps,
            finished_body_write_calls: 0,
            direct_writes: 0,
            looked_after_100: false,
            wrote_after_head: false,
            await_log: vec![],
            response_log: vec![],
            body_start: 0,
            stalled_with_room: None,
        }
    }

    fn enter(&mut self, f: AnyFlow, rec: &mut Rec) {
        rec.ev(|| format!("-> {}", f.name()));
        self.path.push(f.name());
        self.flow = f;
        self.stall = 0;
        if self.sched.partial_on {
            if let AnyFlow::RecvResponse(r) = &mut self.flow {
                r.allow_partial_redirect(true);
                rec.ev(|| "RecvResponse.allow_partial_redirect(true), left on".to_string());
            }
        } else if self.sched.toggle_partial {
            if let AnyFlow::RecvResponse(r) = &mut self.flow {
                r.allow_partial_redirect(true);
                r.allow_partial_redirect(false);
                rec.ev(|| "RecvResponse.allow_partial_redirect(true) then (false), before any input".to_string());
            }
        }
    }

    fn arrive(&mut self, hint: usize) {
        if !self.sched.cuts.is_empty() {
            // explicit cut list: the next arrival ends at the next cut point (or the end of the stream)
            let window = self.arrived - self.consumed;
            if self.stall > 0 || window == 0 || self.arrived == 0 {
                let next = self.sched.cuts.iter().copied().find(|c| *c > self.arrived).unwrap_or(self.server.len());
                self.arrived = next.min(self.server.len());
            }
            return;
        }
        let remaining = self.server.len() - self.arrived;
        let window = self.arrived - self.consumed;
        let mut n = self.sched.arrive.arrival(&mut self.sched.rng, remaining, hint);
        // a caller does not look again at an unchanged window forever
        if n == 0 && remaining > 0 && (window == 0 || self.stall > 0) {
            n = 1;
        }
        if self.stall > 6 {
            n = remaining;
        }
        self.arrived += n;
    }

    pub fn run(&mut self, rec: &mut Rec) -> Step {
        loop {
            let s = self.step(rec);
            if s != Step::More {
                return s;
            }
        }
    }

    /// One public call (plus optional read-only queries), following the caller protocol.
    pub fn step(&mut self, rec: &mut Rec) -> Step {
        self.steps += 1;
        if self.steps > self.max_steps {
            return Step::Capped;
        }
        let flow = std::mem::replace(&mut self.flow, AnyFlow::Gone);
        match flow {
            AnyFlow::Prepare(f) => {
                rec.call();
                let next = f.proceed();
                self.enter(AnyFlow::SendRequest(next), rec);
                Step::More
            }
            AnyFlow::SendRequest(mut f) => {
                if self.sched.queries && self.sched.rng.chance(1, 3) {
                    let _ = f.can_proceed();
                    let _ = f.method();
                    let _ = f.version();
                    let _ = f.uri();
                    // the header view is a query too: it may run the request analysis early but must
                    // not change what goes on the wire
                    let _ = f.headers_map();
                }
                if f.can_proceed() && self.sched.extra_head_write && !self.wrote_after_head {
                    // a "write until it returns 0" caller: one more write although the head is complete
                    // must put nothing on the wire and change nothing
                    self.wrote_after_head = true;
                    let size = *self.sched.rng.pick(&[0usize, 7, 64, 4096]);
                    let mut buf = vec![0u8; size];
                    rec.call();
                    let r = f.write(&mut buf);
                    rec.ev(|| format!("SendRequest.write(out={}) after the head was complete -> {:?}", size, r));
                    let ok = matches!(r, Ok(0));
                    self.flow = AnyFlow::SendRequest(f);
                    if !ok {
                        return Step::Failed {
                            call: "SendRequest::write (after the head was complete)",
                            err: format!("{:?} - once the head is complete further calls emit nothing", r),
                        };
                    }
                    return Step::More;
                }
                if f.can_proceed() {
                    rec.call();
                    match f.proceed() {
                        Ok(Some(SendRequestResult::Await100(n))) => self.enter(AnyFlow::Await100(n), rec),
                        Ok(Some(SendRequestResult::SendBody(n))) => self.enter(AnyFlow::SendBody(n), rec),
                        Ok(Some(SendRequestResult::RecvResponse(n))) => self.enter(AnyFlow::RecvResponse(n), rec),
                        Ok(None) => {
                            return Step::Failed {
                                call: "SendRequest::proceed",
                                err: "None although can_proceed() was true".into(),
                            }
                        }
                        Err(e) => {
                            return Step::Failed {
                                call: "SendRequest::proceed",
                                err: format!("{:?}", e),
                            }
                        }
                    }
                    return Step::More;
                }
                let mut size = self.sched.head_out.size(&mut self.sched.rng, 40);
                if self.stall > 12 {
                    size = BIG;
                }
                let mut buf = vec![0u8; size];
                rec.call();
                self.head_calls += 1;
                hookmon::arm(4 * (size as u64 + 200) + 64);
                let r = f.write(&mut buf);
                hookmon::disarm();
                rec.ev(|| format!("SendRequest.write(out={}) -> {:?}", size, r));
                match r {
                    Ok(n) => {
                        if n > size {
                            self.flow = AnyFlow::SendRequest(f);
                            return Step::Failed {
                                call: "SendRequest::write",
                                err: format!("reported {} bytes written into a {} byte buffer", n, size),
                            };
                        }
                        self.head_out.extend_from_slice(&buf[..n]);
                        if n == 0 {
                            self.stall += 1;
                        } else {
                            self.stall = 0;
                        }
                    }
                    Err(Error::OutputOverflow) => {
                        self.stall += 1;
                        self.head_overflows += 1;
                    }
                    Err(e) => {
                        self.flow = AnyFlow::SendRequest(f);
                        return Step::Failed {
                            call: "SendRequest::write",
                            err: format!("{:?}", e),
                        };
                    }
                }
                self.flow = AnyFlow::SendRequest(f);
                Step::More
            }
            AnyFlow::Await100(mut f) => {
                let give_up = match self.scen {
                    Scen::Decide => self.arrived >= self.server.len() && self.looks > 0 && self.stall > 0,
                    Scen::GiveUpNoData(k) => self.looks >= k,
                    Scen::GiveUpAt(p) => self.arrived >= p.min(self.server.len()) && self.looks > 0,
                };
                let decided = if self.sched.await_by_return && self.scen == Scen::Decide {
                    // this caller only leaves early when bytes were consumed (the 100 it waited for)
                    self.consumed_in_await > 0
                } else {
                    !f.can_keep_await_100()
                };
                if decided && self.sched.await_by_return && self.consumed_in_await > 0 && !self.looked_after_100 {
                    // this caller looks once more although the 100 it waited for has been consumed: whatever
                    // stands in the window now (the response to come) is none of try_read_100's business
                    self.looked_after_100 = true;
                    self.arrive(17);
                    let window = &self.server[self.consumed..self.arrived];
                    rec.call();
                    let r = f.try_read_100(window);
                    rec.ev(|| format!("Await100.try_read_100({:?}) after the 100 was consumed -> {:?}", esc_short(window, 60), r));
                    match r {
                        Ok(0) => {}
                        other => {
                            self.flow = AnyFlow::Await100(f);
                            return Step::Failed {
                                call: "Await100::try_read_100 (after the 100 was consumed)",
                                err: format!("{:?} - the wait is over, nothing is left to consume or to refuse", other),
                            };
                        }
                    }
                }
                if decided || give_up {
                    if !f.can_keep_await_100() && self.await_decided_at.is_none() {
                        self.await_decided_at = Some(self.arrived);
                    }
                    rec.call();
                    rec.ev(|| format!("Await100.proceed() (can_keep_await_100={}, gave_up={})", f.can_keep_await_100(), give_up));
                    match f.proceed() {
                        Ok(Await100Result::SendBody(n)) => self.enter(AnyFlow::SendBody(n), rec),
                        Ok(Await100Result::RecvResponse(n)) => self.enter(AnyFlow::RecvResponse(n), rec),
                        Err(e) => {
                            return Step::Failed {
                                call: "Await100::proceed",
                                err: format!("{:?}", e),
                            }
                        }
                    }
                    return Step::More;
                }
                match self.scen {
                    Scen::GiveUpNoData(_) => {}
                    Scen::Decide => self.arrive(17),
                    Scen::GiveUpAt(p) => {
                        let before = self.arrived;
                        self.arrive(17);
                        self.arrived = self.arrived.min(p.min(self.server.len())).max(before);
                    }
                }
                let window = &self.server[self.consumed..self.arrived];
                rec.call();
                self.looks += 1;
                hookmon::arm(4 * (window.len() as u64) + 64);
                let r = f.try_read_100(window);
                hookmon::disarm();
                rec.ev(|| format!("Await100.try_read_100({:?}) -> {:?} keep={}", esc_short(window, 60), r, f.can_keep_await_100()));
                match r {
                    Ok(n) => {
                        if n > window.len() {
                            self.flow = AnyFlow::Await100(f);
                            return Step::Failed {
                                call: "Await100::try_read_100",
                                err: format!("consumed {} of {} offered", n, window.len()),
                            };
                        }
                        self.await_log.push((window.len(), n, f.can_keep_await_100()));
                        self.consumed += n;
                        self.consumed_in_await += n;
                        if n == 0 {
                            self.stall += 1;
                        } else {
                            self.stall = 0;
                        }
                        if !f.can_keep_await_100() {
                            self.await_decided_at = Some(self.arrived);
                        }
                    }
                    Err(e) => {
                        self.flow = AnyFlow::Await100(f);
                        return Step::Failed {
                            call: "Await100::try_read_100",
                            err: format!("{:?}", e),
                        };
                    }
                }
                self.flow = AnyFlow::Await100(f);
                Step::More
            }
            AnyFlow::SendBody(mut f) => {
                if self.sched.queries && self.sched.rng.chance(1, 3) {
                    let _ = f.is_chunked();
                    let _ = f.calculate_max_input(self.sched.rng.usize_in(0, 30000));
                    let _ = f.can_proceed();
                }
                if f.can_proceed() && self.body_pos >= self.req_body.len() && self.sched.queries && self.sched.rng.chance(1, 5) {
                    // one more finishing call on a finished body: allowed, and it must add nothing to the wire
                    let out = self.sched.body_out.size(&mut self.sched.rng, 16).max(6);
                    let mut buf = vec![0u8; out];
                    rec.call();
                    if let Ok((_, p)) = f.write(&[], &mut buf) {
                        rec.ev(|| format!("SendBody.write(in=0, out={}) on the finished body -> produced {}", out, p));
                        self.body_out.extend_from_slice(&buf[..p.min(out)]);
                        self.finished_body_write_calls += 1;
                    }
                }
                if f.can_proceed() && self.body_pos >= self.req_body.len() {
                    rec.call();
                    match f.proceed() {
                        Some(n) => self.enter(AnyFlow::RecvResponse(n), rec),
                        None => {
                            return Step::Failed {
                                call: "SendBody::proceed",
                                err: "None although can_proceed() was true".into(),
                            }
                        }
                    }
                    return Step::More;
                }
                let remaining = self.req_body.len() - self.body_pos;
                let mut out = self.sched.body_out.size(&mut self.sched.rng, remaining.min(64) + 6);
                let mut k = if remaining == 0 {
                    0
                } else {
                    self.sched.body_in.size(&mut self.sched.rng, remaining).clamp(1, remaining)
                };
                if self.stall > 6 {
                    out = BIG;
                    if remaining > 0 {
                        k = remaining.min(f.calculate_max_input(out)).max(1);
                    }
                }
                if self.sched.direct && k >= 1 && !f.is_chunked() && self.sched.rng.chance(1, 2) {
                    // the caller wrote these bytes to the transport itself and only reports them
                    rec.call();
                    let r = f.consume_direct_write(k);
                    rec.ev(|| format!("SendBody.consume_direct_write({}) -> {:?} can_proceed={}", k, r, f.can_proceed()));
                    if let Err(e) = r {
                        self.flow = AnyFlow::SendBody(f);
                        return Step::Failed {
                            call: "SendBody::consume_direct_write",
                            err: format!("{:?} for {} of {} remaining bytes", e, k, remaining),
                        };
                    }
                    self.body_out.extend_from_slice(&self.req_body[self.body_pos..self.body_pos + k]);
                    self.body_pos += k;
                    self.direct_writes += 1;
                    self.flow = AnyFlow::SendBody(f);
                    return Step::More;
                }
                let input = &self.req_body[self.body_pos..self.body_pos + k];
                let mut buf = vec![0u8; out];
                rec.call();
                hookmon::arm(4 * (k as u64 + out as u64) + 64);
                let r = f.write(input, &mut buf);
                hookmon::disarm();
                rec.ev(|| format!("SendBody.write(in={}, out={}) -> {:?} can_proceed={}", k, out, r, f.can_proceed()));
                match r {
                    Ok((c, p)) => {
                        if c > k || p > out {
                            self.flow = AnyFlow::SendBody(f);
                            return Step::Failed {
                                call: "SendBody::write",
                                err: format!("({}, {}) exceeds offered ({}, {})", c, p, k, out),
                            };
                        }
                        self.body_pos += c;
                        self.body_out.extend_from_slice(&buf[..p]);
                        if c == 0 && p == 0 && k >= 1 && out >= 6 && self.stalled_with_room.is_none() {
                            self.stalled_with_room = Some((k, out));
                        }
                        if c == 0 && p == 0 && !f.can_proceed() {
                            self.stall += 1;
                        } else {
                            self.stall = 0;
                        }
                    }
                    Err(e) => {
                        self.flow = AnyFlow::SendBody(f);
                        return Step::Failed {
                            call: "SendBody::write",
                            err: format!("{:?}", e),
                        };
                    }
                }
                self.flow = AnyFlow::SendBody(f);
                Step::More
            }
            AnyFlow::RecvResponse(mut f) => {
                if self.sched.queries && self.sched.rng.chance(1, 3) {
                    let _ = f.can_proceed();
                }
                if f.can_proceed() {
                    rec.call();
                    match f.proceed() {
                        Some(RecvResponseResult::RecvBody(n)) => {
                            self.body_mode = Some(mode_of(n.body_mode()));
                            self.enter(AnyFlow::RecvBody(n), rec)
                        }
                        Some(RecvResponseResult::Redirect(n)) => self.enter(AnyFlow::Redirect(n), rec),
                        Some(RecvResponseResult::Cleanup(n)) => self.enter(AnyFlow::Cleanup(n), rec),
                        None => {
                            return Step::Failed {
                                call: "RecvResponse::proceed",
                                err: "None although can_proceed() was true".into(),
                            }
                        }
                    }
                    return Step::More;
                }
                if self.arrived >= self.server.len() && self.stall > 0 {
                    self.flow = AnyFlow::RecvResponse(f);
                    return Step::Starved("RecvResponse");
                }
                self.arrive(17);
                let window = &self.server[self.consumed..self.arrived];
                rec.call();
                hookmon::arm(4 * (window.len() as u64) + 64);
                let r = f.try_response(window);
                hookmon::disarm();
                rec.ev(|| {
                    format!(
                        "RecvResponse.try_response({:?} [{} bytes]) -> {}",
                        esc_short(window, 60),
                        window.len(),
                        match &r {
                            Ok((n, Some(resp))) => format!("Ok(({}, Some(status {})))", n, resp.status().as_u16()),
                            Ok((n, None)) => format!("Ok(({}, None))", n),
                            Err(e) => format!("Err({:?})", e),
                        }
                    )
                });
                match r {
                    Ok((n, resp)) => {
                        if n > window.len() {
                            self.flow = AnyFlow::RecvResponse(f);
                            return Step::Failed {
                                call: "RecvResponse::try_response",
                                err: format!("consumed {} of {} offered", n, window.len()),
                            };
                        }
                        self.response_log.push((window.len(), n, resp.as_ref().map(|r| r.status().as_u16())));
                        self.consumed += n;
                        self.body_start = self.consumed;
                        if n == 0 && resp.is_none() {
                            self.stall += 1;
                        } else {
                            self.stall = 0;
                        }
                        if n > 0 && resp.is_none() {
                            self.late_skips += 1;
                        }
                        if let Some(resp) = resp {
                            self.resp = Some(observe_response(&resp));
                        }
                    }
                    Err(e) => {
                        self.flow = AnyFlow::RecvResponse(f);
                        return Step::Failed {
                            call: "RecvResponse::try_response",
                            err: format!("{:?}", e),
                        };
                    }
                }
                self.flow = AnyFlow::RecvResponse(f);
                Step::More
            }
            AnyFlow::RecvBody(mut f) => {
                if self.steps > 0 && self.resp_body.is_empty() && self.chunk_reads.is_empty() {
                    f.stop_on_chunk_boundary(self.sched.stop_on_boundary);
                }
                if self.sched.queries && self.sched.rng.chance(1, 3) {
                    let _ = f.can_proceed();
                    let _ = f.is_on_chunk_boundary();
                    let _ = f.body_mode();
                }
                let close_delim = self.body_mode == Some(Mode::Close);
                let exhausted = self.consumed >= self.server.len();
                if f.can_proceed() && (!close_delim || exhausted) {
                    rec.call();
                    match f.proceed() {
                        Some(RecvBodyResult::Redirect(n)) => self.enter(AnyFlow::Redirect(n), rec),
                        Some(RecvBodyResult::Cleanup(n)) => self.enter(AnyFlow::Cleanup(n), rec),
                        None => {
                            return Step::Failed {
                                call: "RecvBody::proceed",
                                err: "None although can_proceed() was true".into(),
                            }
                        }
                    }
                    return Step::More;
                }
                if self.arrived >= self.server.len() && self.consumed >= self.server.len() {
                    self.flow = AnyFlow::RecvBody(f);
                    return Step::Starved("RecvBody");
                }
                if self.arrived >= self.server.len() && self.stall > 8 {
                    self.flow = AnyFlow::RecvBody(f);
                    return Step::Starved("RecvBody(no progress on complete input)");
                }
                self.arrive(9);
                let window = &self.server[self.consumed..self.arrived];
                let mut out = self.sched.read_out.size(&mut self.sched.rng, window.len().min(64));
                if self.stall > 3 {
                    out = out.max(1);
                }
                if self.stall > 6 {
                    out = BIG;
                }
                let mut buf = vec![0u8; out];
                rec.call();
                hookmon::arm(4 * (window.len() as u64 + out as u64) + 64);
                let r = f.read(window, &mut buf);
                hookmon::disarm();
                rec.ev(|| {
                    format!(
                        "RecvBody.read(in={} {:?}, out={}) -> {:?} can_proceed={} boundary={}",
                        window.len(),
                        esc_short(window, 32),
                        out,
                        r,
                        f.can_proceed(),
                        f.is_on_chunk_boundary()
                    )
                });
                match r {
                    Ok((c, p)) => {
                        if c > window.len() || p > out {
                            self.flow = AnyFlow::RecvBody(f);
                            return Step::Failed {
                                call: "RecvBody::read",
                                err: format!("({}, {}) exceeds offered ({}, {})", c, p, window.len(), out),
                            };
                        }
                        self.chunk_reads.push((self.resp_body.len(), p));
                        self.consumed += c;
                        self.resp_body.extend_from_slice(&buf[..p]);
                        if c == 0 && p == 0 {
                            self.stall += 1;
                        } else {
                            self.stall = 0;
                        }
                    }
                    Err(e) => {
                        self.flow = AnyFlow::RecvBody(f);
                        return Step::Failed {
                            call: "RecvBody::read",
                            err: format!("{:?}", e),
                        };
                    }
                }
                self.flow = AnyFlow::RecvBody(f);
                Step::More
            }
            AnyFlow::Redirect(f) => {
                rec.call();
                let mc = f.must_close_connection();
                let why = f.close_reason();
                self.redirect_status = Some(f.status().as_u16());
                rec.ev(|| format!("Redirect: status={} must_close={} reason={:?}", f.status().as_u16(), mc, why));
                self.verdicts.push(("Redirect", mc, why));
                let n = f.proceed();
                self.enter(AnyFlow::Cleanup(n), rec);
                Step::More
            }
            AnyFlow::Cleanup(f) => {
                rec.call();
                let mc = f.must_close_connection();
                let why = f.close_reason();
                rec.ev(|| format!("Cleanup: must_close={} reason={:?}", mc, why));
                self.verdicts.push(("Cleanup", mc, why));
                self.flow = AnyFlow::Cleanup(f);
                Step::Done
            }
            AnyFlow::Gone => Step::Failed {
                call: "driver",
                err: "flow is gone".into(),
            },
        }
    }

    pub fn must_close(&self) -> Option<bool> {
        self.verdicts.last().map(|v| v.1)
    }

    pub fn summary(&self) -> String {
        format!(
            "path={:?} head={}B body_wire={}B resp={:?} resp_body={}B mode={:?} consumed={} verdicts={:?}",
            self.path,
            self.head_out.len(),
            self.body_out.len(),
            self.resp.as_ref().map(|r| r.status),
            self.resp_body.len(),
            self.body_mode,
            self.consumed,
            self.verdicts
        )
    }
}

// ------------------------------------------------------------------ small helpers used by several properties

/// Write the whole head with one big buffer. Returns the bytes.
pub fn write_head_big(f: &mut F<SendRequest>) -> Result<Vec<u8>, Error> {
    let mut out = Vec::new();
    let mut buf = vec![0u8; BIG];
    for _ in 0..4 {
        if f.can_proceed() {
            break;
        }
        let n = f.write(&mut buf)?;
        out.extend_from_slice(&buf[..n]);
    }
    Ok(out)
}

/// Write the whole head through a sequence of small, varying buffers (overflow -> try the next size).
pub fn write_head_small(f: &mut F<SendRequest>, rng: &mut Rng) -> Result<Vec<u8>, Error> {
    let mut out = Vec::new();
    let mut overflow_run = 0;
    for _ in 0..5000 {
        if f.can_proceed() {
            break;
        }
        let size = if overflow_run > 6 { BIG } else { Prof::Mixed.size(rng, 48).max(8) };
        let mut buf = vec![0u8; size];
        match f.write(&mut buf) {
            Ok(n) => {
                out.extend_from_slice(&buf[..n]);
                overflow_run = 0;
            }
            Err(Error::OutputOverflow) => overflow_run += 1,
            Err(e) => return Err(e),
        }
    }
    Ok(out)
}

/// The head through buffers that are exactly as long as the line to come: for every write the buffer grows from one
/// byte until the write is accepted, and the first accepted size must be the size of what was written - had a
/// smaller buffer been enough for those bytes, a caller whose buffers are as long as its longest line (the size the
/// documentation asks for) would never get that line out.
pub fn write_head_exact(f: &mut F<SendRequest>) -> Result<Vec<u8>, String> {
    let mut out = Vec::new();
    for _ in 0..400 {
        if f.can_proceed() {
            return Ok(out);
        }
        let mut done = false;
        for size in 1..70_000usize {
            let mut buf = vec![0u8; size];
            match f.write(&mut buf) {
                Ok(0) => return Err(format!("write(out={}) -> Ok(0) before the head is complete", size)),
                Ok(n) => {
                    if n != size {
                        return Err(format!(
                            "the line {:?} ({} bytes) was refused by buffers of {}..{} bytes and only went out into {} bytes",
                            String::from_utf8_lossy(&buf[..n.min(80)]),
                            n,
                            n,
                            size - 1,
                            size
                        ));
                    }
                    out.extend_from_slice(&buf[..n]);
                    done = true;
                    break;
                }
                Err(Error::OutputOverflow) => {}
                Err(e) => return Err(format!("{:?}", e)),
            }
        }
        if !done {
            return Err("no buffer up to 70000 bytes was accepted".into());
        }
    }
    Err("head not complete after 400 lines".into())
}

/// Take a flow in SendRequest whose head is complete to RecvResponse, sending `body`
/// (big buffers), optionally skipping Await100 by giving up at once.
pub fn to_recv_response(f: F<SendRequest>, body: &[u8]) -> Result<F<RecvResponse>, String> {
    let next = f.proceed().map_err(|e| format!("{:?}", e))?.ok_or("SendRequest::proceed None")?;
    let mut sb = match next {
        SendRequestResult::RecvResponse(r) => return Ok(r),
        SendRequestResult::SendBody(s) => s,
        SendRequestResult::Await100(a) => match a.proceed().map_err(|e| format!("{:?}", e))? {
            Await100Result::SendBody(s) => s,
            Await100Result::RecvResponse(r) => return Ok(r),
        },
    };
    let mut buf = vec![0u8; body.len() + body.len() / 1000 * 16 + 64];
    let mut pos = 0;
    let mut guard = 0;
    while !sb.can_proceed() {
        guard += 1;
        if guard > 64 {
            return Err("body does not finish".into());
        }
        let (c, _) = sb.write(&body[pos..], &mut buf).map_err(|e| format!("{:?}", e))?;
        pos += c;
    }
    sb.proceed().ok_or_else(|| "SendBody::proceed None".to_string())
}

pub fn fmt_fields(h: &[(String, Vec<u8>)]) -> String {
    h.iter()
        .map(|(n, v)| format!("{}: {}", n, esc(v)))
        .collect::<Vec<_>>()
        .join(" | ")
}

// ------------------------------------------------------------------ request body senders (Flow and Call API)

use ureq_proto::client::call::state::WithBody;
use ureq_proto::client::call::Call;

pub enum BodySender {
    Flow(F<SendBody>),
    Call(Call<WithBody, ()>),
}

impl BodySender {
    pub fn write(&mut self, input: &[u8], out: &mut [u8]) -> Result<(usize, usize), Error> {
        match self {
            BodySender::Flow(f) => f.write(input, out),
            BodySender::Call(c) => c.write(input, out),
        }
    }
    pub fn finished(&self) -> bool {
        match self {
            BodySender::Flow(f) => f.can_proceed(),
            BodySender::Call(c) => c.is_finished(),
        }
    }
    pub fn api(&self) -> &'static str {
        match self {
            BodySender::Flow(_) => "flow",
            BodySender::Call(_) => "call",
        }
    }
}

/// A sender positioned right after the request head. `cl` = Some(n): Content-Length n,
/// None: chunked (the default framing; `explicit_te` adds the header by hand).
pub fn body_sender(cl: Option<u64>, explicit_te: bool, use_call: bool) -> Result<BodySender, String> {
    body_sender_ex(cl, explicit_te, use_call, 0)
}

/// `variant` bit 0: explicit Host header; bit 1 (Flow only): a GET turned into a body request by
/// send_body_despite_method() (default framing = chunked unless `cl`); bit 3 (Flow only): the request
/// carries Expect: 100-continue and the caller gives up waiting; bit 4 (Flow only): Expect and the
/// server's 100 Continue is read before the body; bits 5..6: the body-less method of bit 1; bit 7: `Chunked`;
/// bit 8 (Flow only): one more write of the head after it is complete; bit 9: an HTTP/1.0 request; bit 10
/// (Flow only, with bit 1 and no `cl`): the original carries `transfer-encoding: gzip` (not a framing
/// header: the body defaults to chunked); bit 11 (Flow only): the flow is produced by a redirect - a POST
/// sent with `transfer-encoding: chunked` and answered 303 - and the GET that follows gets its body
/// through the escape hatch, framed by a content-length added in Prepare when `cl` is given
pub fn body_sender_ex(cl: Option<u64>, explicit_te: bool, use_call: bool, variant: u32) -> Result<BodySender, String> {
    if variant & 2048 != 0 && !use_call {
        // (with bit 10: the request that was redirected carried a content-length of its own)
        return redirected_body_sender(cl, variant & 1024 != 0);
    }
    if variant & 4096 != 0 && !use_call {
        // bit 12: a GET whose content-length is added through header() BEFORE the escape hatch is switched on
        if let Some(n) = cl {
            let req = Request::builder().method("GET").uri("http://h.test/up").body(()).unwrap();
            let mut p = Flow::new(req).map_err(|e| format!("{:?}", e))?;
            p.header("content-length", n.to_string()).map_err(|e| format!("{:?}", e))?;
            p.send_body_despite_method();
            let mut f = p.proceed();
            let mut buf = [0u8; 256];
            f.write(&mut buf).map_err(|e| format!("{:?}", e))?;
            return match f.proceed().map_err(|e| format!("{:?}", e))? {
                Some(SendRequestResult::SendBody(s)) => Ok(BodySender::Flow(s)),
                _ => Err("expected SendBody".into()),
            };
        }
    }
    let despite = variant & 2 != 0 && !use_call;
    // bits 5..6: which body-less method the escape hatch is used on
    let despite_method = ["GET", "TRACE", "DELETE", "OPTIONS"][(variant >> 5) as usize & 3];
    let expect = variant & (8 | 16) != 0 && !use_call;
    let mk_req = || -> Request<()> {
    let mut b = Request::builder().method(if despite { despite_method } else { "POST" }).uri("http://h.test/up");
    if variant & 512 != 0 && (!despite || matches!(despite_method, "GET")) {
        b = b.version(Version::HTTP_10);
    }
    if variant & 1024 != 0 && despite && cl.is_none() && !explicit_te {
        b = b.header("transfer-encoding", "gzip");
    }
    if variant & 1 != 0 {
        b = b.header("host", "h.test");
    }
    if expect {
        b = b.header("expect", "100-continue");
    }
    if let Some(n) = cl {
        // bit 15 (with a length): the number is padded with zeros to a fixed width
        b = b.header("content-length", if variant & 32768 != 0 { format!("{:07}", n) } else { n.to_string() });
        if variant & 16384 != 0 {
            // bit 14: a coding that is not chunked next to the content-length: the length still frames the body
            b = b.header("transfer-encoding", "gzip");
        }
    } else if explicit_te {
        if variant & 65536 != 0 && variant & 4 != 0 {
            // bit 16 (with bit 2): the length first, another field, then the coding
            b = b.header("content-length", "4242").header("x-between", "1");
        }
        // bit 7: the coding named with a capital letter
        b = b.header("transfer-encoding", if variant & 128 != 0 { "Chunked" } else { "chunked" });
        if variant & 4 != 0 && variant & 65536 == 0 {
            // both framing headers: the chunked coding decides, the head says so
            b = b.header("content-length", "4242");
        }
    }
    b.body(()).unwrap()
    };
    let req = mk_req();
    let mut buf = [0u8; 256];
    if use_call {
        let mut c = Call::with_body(req).map_err(|e| format!("{:?}", e))?;
        let (_, n) = c.write(&[], &mut buf).map_err(|e| format!("{:?}", e))?;
        if n == 0 {
            return Err("head not written".into());
        }
        Ok(BodySender::Call(c))
    } else {
        let mut p = Flow::new(req).map_err(|e| format!("{:?}", e))?;
        if despite {
            p.send_body_despite_method();
        }
        if variant & 32768 != 0 && cl.is_none() && explicit_te {
            // bit 15 (without a length): the caller adds another coding in Prepare; the list then stands on two
            // lines that are not next to each other, and its last member is still chunked
            p.header("transfer-encoding", "gzip").map_err(|e| format!("{:?}", e))?;
        }
        let mut f = p.proceed();
        if variant & 8192 != 0 {
            // bit 13: the head goes out one line per write, through buffers exactly as long as the line, so that
            // the empty line is left for a write of its own - which then gets a roomy buffer. The line lengths
            // are taken from the same request written in one go by a twin flow.
            let mut twin = Flow::new(mk_req()).map_err(|e| format!("{:?}", e))?;
            if despite {
                twin.send_body_despite_method();
            }
            if variant & 32768 != 0 && cl.is_none() && explicit_te {
                twin.header("transfer-encoding", "gzip").map_err(|e| format!("{:?}", e))?;
            }
            let mut twin = twin.proceed();
            let n = twin.write(&mut buf).map_err(|e| format!("{:?}", e))?;
            let whole = buf[..n].to_vec();
            let mut out: Vec<u8> = Vec::new();
            for line in whole.split_inclusive(|b| *b == b'\n') {
                // (a caller writes while the flow is not ready to move on, and believes it when it says it is)
                if f.can_proceed() {
                    break;
                }
                let mut lb = vec![0u8; if line == b"\r\n" { 64 } else { line.len() }];
                let k = f.write(&mut lb).map_err(|e| format!("head line {:?} into {} bytes: {:?}", String::from_utf8_lossy(line), lb.len(), e))?;
                out.extend_from_slice(&lb[..k]);
            }
            if !whole.starts_with(&out) || (out != whole && !f.can_proceed()) {
                return Err(format!("the head written line by line is {:?}, written in one go {:?}", String::from_utf8_lossy(&out), String::from_utf8_lossy(&whole)));
            }
        } else {
            f.write(&mut buf).map_err(|e| format!("{:?}", e))?;
        }
        if variant & 256 != 0 {
            // a caller that writes "until nothing comes out": the head is complete, nothing may follow
            let mut more = [0u8; 64];
            match f.write(&mut more) {
                Ok(0) => {}
                other => return Err(format!("write after the complete head -> {:?}", other)),
            }
        }
        match f.proceed().map_err(|e| format!("{:?}", e))? {
            Some(SendRequestResult::SendBody(s)) if !expect => Ok(BodySender::Flow(s)),
            Some(SendRequestResult::Await100(mut a)) if expect => {
                if variant & 16 != 0 {
                    let n = a.try_read_100(b"HTTP/1.1 100 Continue\r\n\r\n").map_err(|e| format!("{:?}", e))?;
                    if n != 25 {
                        return Err(format!("100 Continue not consumed: {}", n));
                    }
                }
                match a.proceed().map_err(|e| format!("{:?}", e))? {
                    Await100Result::SendBody(s) => Ok(BodySender::Flow(s)),
                    _ => Err("expected SendBody after Await100".into()),
                }
            }
            _ => Err("expected SendBody after the head".into()),
        }
    }
}

/// See bit 11 of `body_sender_ex`.
fn redirected_body_sender(cl: Option<u64>, original_sized: bool) -> Result<BodySender, String> {
    // the first request is framed by chunked - or, for small even lengths, by the very content-length value
    // the caller will give the redirected request (it is a new header there, not a repetition)
    let first = match cl {
        Some(n) if n % 2 == 0 && n <= 4096 => ReqCfg::new("POST", "http://h.test/first").h("content-length", n.to_string().as_bytes()).h("cookie", b"a=b"),
        None if original_sized => ReqCfg::new("POST", "http://h.test/first").h("content-length", b"3").h("cookie", b"a=b"),
        _ => ReqCfg::new("POST", "http://h.test/first").h("transfer-encoding", b"chunked").h("cookie", b"a=b"),
    };
    let (end, ..) = fast_to_recv(&first).and_then(|f| fast_response(f, b"HTTP/1.1 303 See Other\r\nLocation: /up\r\nContent-Length: 0\r\n\r\n"))?;
    let mut r = match end {
        End::Redirect(r) => r,
        End::Cleanup(_) => return Err("303 did not reach the redirect state".into()),
    };
    let mut p = match r.as_new_flow(ureq_proto::client::flow::RedirectAuthHeaders::Never) {
        Ok(Some(p)) => p,
        other => return Err(format!("as_new_flow: {:?}", other.map(|o| o.is_some()))),
    };
    p.send_body_despite_method();
    if let Some(n) = cl {
        p.header("content-length", n.to_string()).map_err(|e| format!("{:?}", e))?;
    }
    let mut f = p.proceed();
    let mut buf = [0u8; 256];
    f.write(&mut buf).map_err(|e| format!("redirected head: {:?}", e))?;
    match f.proceed().map_err(|e| format!("{:?}", e))? {
        Some(SendRequestResult::SendBody(s)) => Ok(BodySender::Flow(s)),
        _ => Err("expected SendBody on the redirected flow".into()),
    }
}

/// Build the flow for `cfg`, send head and (minimal) body with big buffers, giving up on
/// Await100 at once. Returns the flow ready to receive the response.
pub fn fast_to_recv(cfg: &ReqCfg) -> Result<F<RecvResponse>, String> {
    let mut f = build_flow(cfg).map_err(|e| format!("Flow::new: {:?}", e))?.proceed();
    write_head_big(&mut f).map_err(|e| format!("head: {:?}", e))?;
    if !f.can_proceed() {
        return Err("head not complete after big writes".into());
    }
    let body: Vec<u8> = match cfg.declared_len() {
        Some(n) => vec![b'x'; n.min(1 << 20) as usize],
        None => vec![],
    };
    to_recv_response(f, &body)
}

/// Feed a complete response (head + body + optional trailing bytes) with big buffers.
/// Returns the state reached (Redirect or Cleanup), the response and how much was consumed.
pub enum End {
    Redirect(F<Redirect>),
    Cleanup(F<Cleanup>),
}

pub fn fast_response(mut f: F<RecvResponse>, stream: &[u8]) -> Result<(End, RespObs, usize, Vec<u8>), String> {
    let mut consumed = 0usize;
    let mut obs = None;
    for _ in 0..8 {
        let (n, r) = f.try_response(&stream[consumed..]).map_err(|e| format!("try_response: {:?}", e))?;
        consumed += n;
        if let Some(r) = r {
            obs = Some(observe_response(&r));
            if f.can_proceed() {
                break;
            }
            // an interim response was handed out: the caller keeps reading
            continue;
        }
        if n == 0 {
            break;
        }
    }
    let obs = obs.ok_or("no response")?;
    let mut body = Vec::new();
    match f.proceed().ok_or("RecvResponse::proceed None")? {
        RecvResponseResult::Redirect(r) => Ok((End::Redirect(r), obs, consumed, body)),
        RecvResponseResult::Cleanup(c) => Ok((End::Cleanup(c), obs, consumed, body)),
        RecvResponseResult::RecvBody(mut b) => {
            let close = b.body_mode() == BodyMode::CloseDelimited;
            let mut buf = vec![0u8; BIG];
            let mut guard = 0;
            loop {
                guard += 1;
                if guard > 10_000 {
                    return Err("body read does not finish".into());
                }
                if (b.can_proceed() && !close) || consumed >= stream.len() {
                    break;
                }
                let (c, p) = b.read(&stream[consumed..], &mut buf).map_err(|e| format!("read: {:?}", e))?;
                consumed += c;
                body.extend_from_slice(&buf[..p]);
                if c == 0 && p == 0 {
                    break;
                }
            }
            match b.proceed().ok_or("RecvBody::proceed None")? {
                RecvBodyResult::Redirect(r) => Ok((End::Redirect(r), obs, consumed, body)),
                RecvBodyResult::Cleanup(c) => Ok((End::Cleanup(c), obs, consumed, body)),
            }
        }
    }
}
