//! C14 — redirect target resolves the last Location against the current URI (RFC 3986).
use super::heads::*;
use crate::core::{guarded, panic_sig, Property, Rec, Tier, Workload};
use crate::drive::*;
use crate::json::esc;
use crate::rng::Rng;
use crate::wire::*;
use ureq_proto::client::flow::RedirectAuthHeaders;
use ureq_proto::http::Uri;

pub struct P;

fn uri_norm(u: &Uri) -> String {
    normalise(&UriRef { fragment: None, ..split_uri(&u.to_string()) })
}

fn chain_case(rng: &mut Rng, rec: &mut Rec) {
    let method = *rng.pick(&["GET", "GET", "HEAD", "POST", "DELETE", "OPTIONS"]);
    let cfg = ReqCfg::new(method, &clean_start_uri(rng)).h("x-o", b"1");
    let original = split_uri(&cfg.uri);
    let policy = if rng.chance(1, 2) { RedirectAuthHeaders::Never } else { RedirectAuthHeaders::SameHost };
    let hops = rng.usize_in(1, 4);
    rec.ev(|| format!("start: {} {}", method, cfg.uri));
    let mut eff = initial_eff(&cfg);
    let mut flow = match build_flow(&cfg) {
        Ok(f) => f,
        Err(e) => return rec.fail("C14/setup", format!("{:?}", e)),
    };
    for hop_i in 0..hops {
        let (mut kind, mut loc) = clean_location(rng, &original);
        if hop_i > 0 && rng.chance(1, 8) {
            // back to the very URI that was just requested, spelled absolutely
            kind = "self-absolute";
            loc = normalise(&eff.uri);
            if rng.chance(1, 2) {
                loc.push_str("#again");
            }
        }
        let mut locations = vec![];
        // several Location fields: the last one counts
        for _ in 0..(if rng.chance(1, 4) { rng.usize_in(1, 2) } else { 0 }) {
            locations.push(clean_location(rng, &original).1.into_bytes());
        }
        locations.push(loc.clone().into_bytes());
        let status = *rng.pick(&[301u16, 302, 303, 300, 399]);
        let hop = Hop { status, locations: locations.clone(), with_body: rng.chance(1, 3) };
        let base_shape = if eff.uri.path.is_empty() { "base-empty-path" } else if eff.uri.path.ends_with('/') { "base-dir" } else { "base-file" };
        rec.call();
        let followed = match follow_one(flow, &cfg, &eff, &original, &hop, policy) {
            Ok(v) => v,
            Err(e) => return rec.fail("C14/hop-failed", format!("hop {} Location {:?}: {}", hop_i, loc, e)),
        };
        match followed {
            Followed::Next(f, e) => {
                let got = uri_norm(f.uri());
                let want = normalise(&e.uri);
                rec.ev(|| format!("hop {}: base {} + Location {:?} ({}, {} fields) -> crate {} | RFC 3986 {}", hop_i, normalise(&eff.uri), loc, kind, locations.len(), got, want));
                rec.cov(&format!("{}/{}/hop{}", kind, base_shape, hop_i + 1));
                if locations.len() > 1 {
                    rec.cov("several-location-fields");
                }
                if got != want {
                    // which mistake is it?
                    let against_original = normalise(&UriRef { fragment: None, ..resolve(&original, &split_uri(&loc)) });
                    let first = normalise(&UriRef { fragment: None, ..resolve(&eff.uri, &split_uri(&String::from_utf8_lossy(&locations[0]))) });
                    let sig = if hop_i > 0 && got == against_original {
                        "C14/resolved-against-original-uri"
                    } else if locations.len() > 1 && got == first {
                        "C14/first-location-used"
                    } else {
                        "C14/target-differs-from-rfc3986"
                    };
                    return rec.fail(
                        sig,
                        format!("hop {}: base {} Location {:?}: new flow has {} but RFC 3986 resolution gives {}", hop_i + 1, normalise(&eff.uri), loc, got, want),
                    );
                }
                let mut f = f;
                if rng.chance(1, 8) {
                    f.send_body_despite_method();
                    rec.cov("despite-method-on-redirected-flow");
                    let after = uri_norm(f.uri());
                    if after != want {
                        return rec.fail(
                            "C14/uri-lost-by-despite-method",
                            format!("hop {}: the new flow had {} but after send_body_despite_method() it has {}", hop_i + 1, want, after),
                        );
                    }
                }
                if f.uri().to_string().contains('#') {
                    return rec.fail("C14/fragment-kept", format!("new URI {} still has a fragment", f.uri()));
                }
                if f.method().as_str() != e.method {
                    return rec.fail("C14/method", format!("new flow method {} expected {}", f.method(), e.method));
                }
                // request line and Host of the new request
                let mut probe_flow = f;
                let uri_string = probe_flow.uri().to_string();
                let _ = &uri_string;
                // we need the flow both for the next hop and for writing: write through a clone of the chain instead
                // (the flow is consumed by writing), so write on this one and rebuild the next hop from it afterwards
                // is impossible; instead the head is checked when this flow makes its own hop below, or now if last.
                if hop_i + 1 == hops {
                    let mut s = probe_flow.proceed();
                    rec.call();
                    match write_head_big(&mut s) {
                        Ok(head) => {
                            if !check_wire(&head, &e, rec) {
                                return;
                            }
                        }
                        Err(err) => return rec.fail("C14/new-request-refused", format!("{:?}", err)),
                    }
                    return;
                }
                probe_flow = {
                    // check the head by taking the hop with follow_one_head in the next iteration
                    probe_flow
                };
                flow = probe_flow;
                eff = e;
            }
            Followed::NotFollowed => {
                rec.cov("not-followed");
                return;
            }
            Followed::Error(e) => {
                return rec.fail("C14/resolvable-location-refused", format!("hop {} base {} Location {:?}: {}", hop_i + 1, normalise(&eff.uri), loc, e));
            }
        }
    }
}

fn check_wire(head: &[u8], eff: &Eff, rec: &mut Rec) -> bool {
    let h = match parse_request_head_strict(head) {
        Ok(h) => h,
        Err(e) => {
            rec.fail("C14/head-unparseable", e);
            return false;
        }
    };
    let want_target = path_and_query(&eff.uri);
    if h.target != want_target {
        rec.fail("C14/request-line-target", format!("request line has {:?}, the resolved URI's path and query is {:?}", h.target, want_target));
        return false;
    }
    let host: Vec<&Vec<u8>> = h.headers.iter().filter(|(n, _)| n.eq_ignore_ascii_case("host")).map(|(_, v)| v).collect();
    if host.len() != 1 {
        rec.fail("C14/host-count", format!("{} Host headers", host.len()));
        return false;
    }
    let hv = String::from_utf8_lossy(host[0]).to_ascii_lowercase();
    let hv_host = match hv.rsplit_once(':') {
        Some((h, p)) if p.chars().all(|c| c.is_ascii_digit()) => h.to_string(),
        _ => hv.clone(),
    };
    if hv_host != host_of(&eff.uri) {
        rec.fail("C14/host-header-wrong-origin", format!("Host: {} but the resolved URI's host is {}", hv, host_of(&eff.uri)));
        return false;
    }
    rec.cov("wire-checked");
    true
}

/// Second workload: intermediate hops' wire form (every hop's request head is checked).
fn wire_case(rng: &mut Rng, rec: &mut Rec) {
    // every method that survives a redirect, under every followed status
    let method = *rng.pick(&["GET", "GET", "HEAD", "OPTIONS", "TRACE", "POST", "DELETE"]);
    let mut cfg = ReqCfg::new(method, &clean_start_uri(rng));
    let original = split_uri(&cfg.uri);
    if rng.chance(1, 4) {
        // the caller spelled out the Host of the first request itself
        cfg.orig.push(("host".into(), host_of(&original).into_bytes()));
        rec.cov("wire/original-with-explicit-host");
    }
    let mut eff = initial_eff(&cfg);
    let mut flow = match build_flow(&cfg) {
        Ok(f) => f,
        Err(e) => return rec.fail("C14/setup", format!("{:?}", e)),
    };
    for hop_i in 0..rng.usize_in(2, 4) {
        let (_kind, loc) = clean_location(rng, &original);
        let hop = Hop { status: *rng.pick(&[302u16, 302, 301, 303, 307, 308]), locations: vec![loc.clone().into_bytes()], with_body: false };
        rec.call();
        if hop_i > 0 {
            rec.cov(&format!("wire/{}-request-after-redirect", eff.method));
        }
        let (head, followed) = match follow_one_head(flow, &cfg, &eff, &original, &hop, RedirectAuthHeaders::Never) {
            Ok(v) => v,
            Err(e) => return rec.fail("C14/hop-failed", format!("hop {} Location {:?}: {}", hop_i, loc, e)),
        };
        if hop_i > 0 && !check_wire(&head, &eff, rec) {
            return;
        }
        match followed {
            Followed::Next(f, e) => {
                flow = f;
                eff = e;
            }
            _ => return,
        }
    }
}

const HOSTILE: [&[u8]; 61] = [
    // (scheme names are case-insensitive)
    b"HTTPS:evil.test/x", b"Http:/evil.test/x", b"HTTP:///evil.test/x", b"hTtP:\\\\evil.test/x", b"HTTPS://evil.test\\@a.test/", b"HtTpS:evil.test",
    // references that only a WHATWG parser's repairs turn into a URL on another host: RFC 3986 reads a path on the
    // current authority, or a URI without a host
    b"/\\evil.test/x", b"\\\\evil.test/x", b"/\t/evil.test/x", b"https:evil.test/x", b"https:/evil.test/x", b"http:evil.test/x", b"http:/evil.test/x", b"http:///evil.test/x", b"https:///evil.test/x", b"///evil.test/x",
    b"http:/\\evil.test/x", b"/\\/evil.test/x", b"\\/evil.test/x", b"http:g",
    b"mailto:x@evil.test", b"evil.test:8080", b"tel:+1234", b"x:", b"urn:a.test:x",
    b"\xff\xfe", b"http://[::1", b"http://a b/", b"http://a.test:99999/", b"http://a.test:port/", b"http://user:pw@evil.test/", b"http:\\\\evil.test\\x", b"/\\evil.test", b"\\\\evil.test/", b"//", b"///", b"http://", b"http:///x",
    b"ht!tp://x/", b"javascript:alert(1)", b"mailto:a@b.test", b"ftp://ftp.test/f", b"file:///etc/passwd", b"http://[::1]/v6", b"http://[::1]:8080/v6", b"/a\tb", b"/a b", b" /lead", b"/%2e%2e/%2e%2e/x", b"/..%2fx", b"?\xc3\xa9", b"/\xc3\xa9",
    b"http://ex\xc3\xa4mple.test/", b"http://EVIL.test/", b"http://evil.test./", b"http://a.test@evil.test/", b"http://a.test%2f@evil.test/", b"http://evil.test#@a.test/", b"http://evil.test?@a.test/", b"//evil.test:80:80/", b"http://b.test:0080/x",
];

/// Long values that are not text: whatever the error keeps of them, cutting it must not panic.
fn long_non_textual(i: usize) -> Vec<u8> {
    let n = 250 + i / 4;
    let mut v = vec![b'a'; n];
    v.extend_from_slice([&b"\xc3\xa9"[..], b"\xff", b"\xe2\x82\xac", b"\xf0\x9f\x98\x80"][i % 4]);
    v.extend_from_slice(&vec![b'b'; 300]);
    v
}
const LONG_NON_TEXTUAL: usize = 4 * 14;

fn hostile_case(idx: u64, rec: &mut Rec) {
    let kind = idx / (HOSTILE.len() + LONG_NON_TEXTUAL) as u64;
    let which = (idx % (HOSTILE.len() + LONG_NON_TEXTUAL) as u64) as usize;
    let long;
    let loc: &[u8] = if which < HOSTILE.len() {
        HOSTILE[which]
    } else {
        long = long_non_textual(which - HOSTILE.len());
        rec.cov("hostile/long-non-textual");
        &long
    };
    let start = ["http://a.test/dir/file?q=1", "https://a.test", "http://a.test:8080/x/"][(kind % 3) as usize];
    let cfg = ReqCfg::new("GET", start);
    // half of the cells meet the hostile value on the second hop, after a clean redirect to another scheme and host
    let prehop = (kind / 3) % 2 == 1;
    const PREHOP: &str = "https://b.test/ok/";
    let base = split_uri(if prehop { PREHOP } else { start });
    rec.cov(if prehop { "hostile/on-second-hop" } else { "hostile/on-first-hop" });
    let res = guarded(|| -> Result<Option<(String, String)>, String> {
        let mut f = fast_to_recv(&cfg)?;
        if prehop {
            let mut h = RespHead::new(false, 302);
            h.fields.push(Field::new("Location", PREHOP.as_bytes()));
            let (end, _, _, _) = fast_response(f, &h.render()).map_err(|e| format!("PREHOP {}", e))?;
            let nf = match end {
                End::Redirect(mut r) => r.as_new_flow(RedirectAuthHeaders::SameHost).map_err(|e| format!("PREHOP {:?}", e))?.ok_or("PREHOP not followed")?,
                End::Cleanup(_) => return Err("PREHOP no redirect state".into()),
            };
            let mut s = nf.proceed();
            write_head_big(&mut s).map_err(|e| format!("PREHOP head {:?}", e))?;
            f = to_recv_response(s, &[]).map_err(|e| format!("PREHOP {}", e))?;
        }
        let mut h = RespHead::new(false, 302);
        h.fields.push(Field::new("Location", loc));
        let stream = h.render();
        // a non-textual Location may already be refused by the head parser; that is a refusal too
        let (end, _, _, _) = fast_response(f, &stream)?;
        match end {
            End::Redirect(mut r) => match r.as_new_flow(RedirectAuthHeaders::SameHost) {
                Ok(Some(nf)) => {
                    let uri = nf.uri().to_string();
                    let mut s = nf.proceed();
                    let head = write_head_big(&mut s).map(|b| String::from_utf8_lossy(&b).to_string()).unwrap_or_else(|e| format!("<refused: {:?}>", e));
                    Ok(Some((uri, head)))
                }
                Ok(None) => Ok(None),
                Err(e) => Err(format!("{:?}", e)),
            },
            End::Cleanup(_) => Err("no redirect state".into()),
        }
    });
    rec.call();
    let textual = std::str::from_utf8(loc).is_ok();
    rec.ev(|| format!("base {} Location {:?} -> {:?}", start, esc(loc), res));
    match res {
        Err((l, m)) => rec.fail(&format!("C14/{}", panic_sig(&l, &m)), format!("Location {:?}: panic {} at {}", esc(loc), m, l)),
        Ok(Err(e)) if e.starts_with("PREHOP") => rec.fail("C14/setup", format!("the clean first hop failed: {}", e)),
        Ok(Err(_)) => rec.cov("hostile/refused"),
        Ok(Ok(None)) => rec.cov("hostile/not-followed"),
        Ok(Ok(Some((uri, head)))) => {
            rec.cov("hostile/followed");
            if !textual {
                return rec.fail("C14/non-textual-location-followed", format!("Location {:?} led to a request for {}", esc(loc), uri));
            }
            // a reference with a scheme and no authority resolves to itself: a URI without a host, to
            // which no request can be made - whatever host a request then goes to, the Location never
            // named it as one
            let r = split_uri(&String::from_utf8_lossy(loc));
            // (one reading is left open: RFC 3986 section 5.2.2 lets a non-strict resolver drop a scheme equal to
            // the base's, so "http:g" on an http base may also be followed as the path "g" on the current authority)
            let new_host = host_of(&split_uri(&uri));
            let stays = new_host == host_of(&base);
            let same_scheme = r.scheme.as_deref().map(|s| s.eq_ignore_ascii_case(base.scheme.as_deref().unwrap_or(""))).unwrap_or(false);
            if r.scheme.is_some() && r.authority.is_none() && !(stays && same_scheme) {
                return rec.fail("C14/followed-location-without-authority", format!("Location {:?} (scheme {:?}, no authority) led to a request for {} / {:?}", esc(loc), r.scheme, uri, head.lines().take(2).collect::<Vec<_>>()));
            }
            // "//" announces an authority; an empty one names no host
            if r.authority.as_deref() == Some("") {
                return rec.fail("C14/followed-location-with-empty-authority", format!("Location {:?} (empty authority) led to a request for {} / {:?}", esc(loc), uri, head.lines().take(2).collect::<Vec<_>>()));
            }
            // a reference without scheme and authority is a path (or query) on the authority of the request just made
            if r.scheme.is_none() && r.authority.is_none() && !stays {
                return rec.fail("C14/path-reference-left-the-authority", format!("Location {:?} has no authority component, base {}, yet the request goes to {} / {:?}", esc(loc), if prehop { PREHOP } else { start }, uri, head.lines().take(2).collect::<Vec<_>>()));
            }
            // weak oracle: never a request to an origin that is neither the base host nor named in the Location
            let loc_s = String::from_utf8_lossy(loc).to_ascii_lowercase();
            let trimmed = new_host.trim_end_matches('.');
            if new_host != host_of(&base) && !loc_s.contains(trimmed) && !new_host.is_empty() {
                return rec.fail("C14/wrong-origin", format!("Location {:?} on base {} led to host {:?}", esc(loc), start, new_host));
            }
            if let Some(line) = head.lines().find(|l| l.to_ascii_lowercase().starts_with("host:")) {
                let hv = line[5..].trim().to_ascii_lowercase();
                let hv_host = hv.rsplit_once(':').map(|(h, p)| if p.chars().all(|c| c.is_ascii_digit()) { h.to_string() } else { hv.clone() }).unwrap_or(hv.clone());
                if hv_host != new_host && !new_host.is_empty() && !hv_host.starts_with('[') {
                    return rec.fail("C14/host-header-wrong-origin", format!("Location {:?}: new URI {} but Host: {}", esc(loc), uri, hv));
                }
            }
        }
    }
}

/// The query of a reference is data: it is taken over as it stands (RFC 3986 section 5.2.2), and a reserved
/// character is not equivalent to its percent-encoding (section 2.2). The apostrophe is the one character that
/// RFC 3986 allows in a query and the WHATWG parser behind the crate rewrites (to %27).
const APOS_BASES: [&str; 3] = ["http://a.test/dir/file?q='base'", "https://a.test/x", "http://a.test:8080/d/"];
const APOS_LOCS: [&str; 8] = ["/search?name=O'Brien", "other?k='v'#frag", "", "?n='", "http://b.test/p?x='y'", "//b.test/p?'", "/it's/path?plain=1", "#only-a-fragment"];

fn apostrophe_case(idx: u64, rec: &mut Rec) {
    let start = APOS_BASES[(idx % 3) as usize];
    let loc = APOS_LOCS[((idx / 3) % 8) as usize];
    let status = [301u16, 302, 307][((idx / 24) % 3) as usize];
    verbatim_case(start, loc, status, "apostrophe", rec)
}

/// "With any fragment dropped": however long the fragment is, the target without it is what counts - a Location of
/// 70 KB that is nearly all fragment resolves to a short URI.
fn long_fragment_case(idx: u64, rec: &mut Rec) {
    let start = APOS_BASES[(idx % 3) as usize];
    let stem = ["http://b.test/next#", "../other?k=v#", "#", "/p?q=1#"][((idx / 3) % 4) as usize];
    let n = [65_500usize, 65_536, 70_000][((idx / 12) % 3) as usize];
    let loc = format!("{}{}", stem, "f".repeat(n));
    verbatim_case(start, &loc, 302, "long-fragment", rec)
}

fn verbatim_case(start: &str, loc: &str, status: u16, what: &str, rec: &mut Rec) {
    let cfg = ReqCfg::new("GET", start);
    let want = UriRef { fragment: None, ..resolve(&split_uri(start), &split_uri(loc)) };
    let want_target = path_and_query(&want);
    let res = guarded(|| -> Result<(String, String), String> {
        let f = fast_to_recv(&cfg)?;
        let mut h = RespHead::new(false, status);
        h.fields.push(Field::new("Location", loc.as_bytes()));
        let (end, _, _, _) = fast_response(f, &h.render())?;
        match end {
            End::Redirect(mut r) => match r.as_new_flow(RedirectAuthHeaders::Never) {
                Ok(Some(nf)) => {
                    let uri = nf.uri().to_string();
                    let mut s = nf.proceed();
                    let head = write_head_big(&mut s).map_err(|e| format!("head refused: {:?}", e))?;
                    let h = parse_request_head_strict(&head)?;
                    Ok((uri, h.target))
                }
                Ok(None) => Err("not followed".into()),
                Err(e) => Err(format!("{:?}", e)),
            },
            End::Cleanup(_) => Err("no redirect state".into()),
        }
    });
    rec.call();
    let loc_short = crate::json::esc_short(loc.as_bytes(), 60);
    rec.ev(|| format!("base {} Location {:?} ({} bytes, {}) -> {:?}; RFC 3986: {}", start, loc_short, loc.len(), status, res.as_ref().map(|r| r.as_ref().map_err(|e| crate::json::esc_short(e.as_bytes(), 80))), normalise(&want)));
    let loc = loc_short.as_str();
    match res {
        Err((l, m)) => rec.fail(&format!("C14/{}", panic_sig(&l, &m)), format!("Location {:?}: panic {} at {}", loc, m, l)),
        Ok(Err(e)) => rec.fail("C14/valid-location-refused", format!("base {} Location {:?}: {}", start, loc, crate::json::esc_short(e.as_bytes(), 80))),
        Ok(Ok((uri, target))) => {
            rec.cov(&format!("{}/{}", what, if want_target.contains('\'') { "in-target" } else { "control" }));
            let uri_target = path_and_query(&split_uri(&uri));
            for (what, got) in [("request line", &target), ("Flow::uri()", &uri_target)] {
                if *got != want_target {
                    let sig = if got.replace("%27", "'") == want_target { "C14/query-apostrophe-percent-encoded" } else { "C14/request-line-target" };
                    return rec.fail(sig, format!("base {} Location {:?}: {} has {:?}, the resolved URI's path and query is {:?}", start, loc, what, got, want_target));
                }
            }
        }
    }
}

/// Requests in origin-form (`GET /path` with the Host spelled out) have no absolute URI to resolve
/// against: an absolute Location still names its target, anything else cannot be resolved and is an
/// error - never a panic, never a request to an origin nobody named.
fn origin_form_case(idx: u64, rec: &mut Rec) {
    // (the last three are authority-form targets whose text also reads as "scheme:something")
    const TARGETS: [&str; 6] = ["/path?x=1", "/", "/a/b/../c", "http:80", "https:443", "a.test:443"];
    const LOCS: [&[u8]; 12] = [b"http://b.test/next", b"https://a.test/x?y=1#frag", b"http://b.test", b"//c.test/p", b"/next", b"next", b"../up", b"?q=2", b"", b"#f", b"\xff\xfe", b"http://[::1"];
    let target = TARGETS[(idx % 6) as usize];
    let loc = LOCS[(idx / 6 % 12) as usize];
    let method = ["GET", "HEAD", "POST"][(idx / 72 % 3) as usize];
    let status = [302u16, 307, 303][(idx / 216 % 3) as usize];
    if !target.starts_with('/') {
        rec.cov("origin-form/authority-form-target");
    }
    let mut cfg = ReqCfg::new(method, target);
    cfg.orig.push(("host".into(), b"a.test".to_vec()));
    let res = guarded(|| -> Result<Option<(String, String)>, String> {
        let f = fast_to_recv(&cfg)?;
        let mut h = RespHead::new(false, status);
        h.fields.push(Field::new("Location", loc));
        h.fields.push(Field::new("Content-Length", b"0"));
        let (end, _, _, _) = fast_response(f, &h.render())?;
        match end {
            End::Redirect(mut r) => match r.as_new_flow(RedirectAuthHeaders::SameHost) {
                Ok(Some(nf)) => {
                    let uri = nf.uri().to_string();
                    let mut s = nf.proceed();
                    let head = write_head_big(&mut s).map(|b| String::from_utf8_lossy(&b).to_string()).unwrap_or_else(|e| format!("<refused: {:?}>", e));
                    Ok(Some((uri, head)))
                }
                Ok(None) => Ok(None),
                Err(e) => Err(format!("{:?}", e)),
            },
            End::Cleanup(_) => Err("no redirect state".into()),
        }
    });
    rec.call();
    rec.ev(|| format!("{} {} (host: a.test) answered {} Location {:?} -> {:?}", method, target, status, esc(loc), res));
    match res {
        Err((l, m)) => rec.fail(&format!("C14/{}", panic_sig(&l, &m)), format!("request {} {} with Host a.test, {} Location {:?}: panic {} at {}", method, target, status, esc(loc), m, l)),
        Ok(Err(_)) => rec.cov("origin-form/refused"),
        Ok(Ok(None)) => rec.cov("origin-form/not-followed"),
        Ok(Ok(Some((uri, head)))) => {
            rec.cov("origin-form/followed");
            let u = split_uri(&uri);
            let new_host = host_of(&u);
            let loc_s = String::from_utf8_lossy(loc).to_ascii_lowercase();
            if new_host != "a.test" && (new_host.is_empty() || !loc_s.contains(&new_host)) {
                return rec.fail("C14/wrong-origin", format!("Location {:?} for an origin-form request led to {:?}", esc(loc), uri));
            }
            if let Some(line) = head.lines().find(|l| l.to_ascii_lowercase().starts_with("host:")) {
                let hv = line[5..].trim().to_ascii_lowercase();
                let hv_host = hv.rsplit_once(':').map(|(h, p)| if p.chars().all(|c| c.is_ascii_digit()) { h.to_string() } else { hv.clone() }).unwrap_or(hv.clone());
                if hv_host != new_host {
                    return rec.fail("C14/host-header-wrong-origin", format!("origin-form request redirected to {} but Host: {}", uri, hv));
                }
            }
            if let Some(first) = head.lines().next() {
                let want = path_and_query(&u);
                if first.split(' ').nth(1) != Some(want.as_str()) {
                    return rec.fail("C14/request-line-target", format!("redirected to {} but the request line is {:?}", uri, first));
                }
            }
        }
    }
}

/// A Location that is text and cannot be resolved to a URI with a host is an error whatever the method and the
/// status - also where the table of C15 would not follow the redirect anyway.
fn unresolvable_case(idx: u64, rec: &mut Rec) {
    let method = ["GET", "POST", "PUT", "DELETE", "HEAD", "PATCH"][(idx % 6) as usize];
    let status = [301u16, 302, 303, 307, 308][(idx / 6 % 5) as usize];
    let loc: &[u8] = [&b"mailto:x@y.test"[..], b"http:y.test/x", b"/\\y.test", b"http://[::1", b"http://a b/", b"//", b"https:///y.test/", b"http://a.test:99999/"][(idx / 30 % 8) as usize];
    let cfg = ReqCfg::new(method, "http://a.test/x");
    let f = match fast_to_recv(&cfg) {
        Ok(f) => f,
        Err(e) => return rec.fail("C14/setup", e),
    };
    let mut h = RespHead::new(false, status);
    h.fields.push(Field::new("Location", loc));
    h.fields.push(Field::new("Content-Length", b"0"));
    rec.call();
    match fast_response(f, &h.render()) {
        Ok((End::Redirect(mut r), ..)) => {
            let res = guarded(move || r.as_new_flow(RedirectAuthHeaders::Never).map(|o| o.map(|f| f.uri().to_string())));
            rec.ev(|| format!("{} answered {} Location {:?}: as_new_flow -> {:?}", method, status, esc(loc), res));
            rec.cov(&format!("unresolvable/{}", if matches!(status, 307 | 308) && matches!(method, "POST" | "PUT" | "DELETE" | "PATCH") { "where-the-table-would-not-follow" } else { "where-the-table-follows" }));
            match res {
                Err((l, m)) => rec.fail(&format!("C14/{}", panic_sig(&l, &m)), format!("{} at {}", m, l)),
                Ok(Err(_)) => {}
                Ok(Ok(v)) => rec.fail("C14/unresolvable-location-not-an-error", format!("{} {} Location {:?}: as_new_flow -> Ok({:?}), no error is reported", method, status, esc(loc), v)),
            }
        }
        Ok(_) => rec.fail("C14/no-redirect-state", "3xx did not reach the redirect state".into()),
        Err(e) => rec.fail("C14/setup", e),
    }
}

fn missing_case(idx: u64, rec: &mut Rec) {
    // missing / non-textual Location must be an error; with several fields the LAST one counts,
    // so a textual field before a non-textual last one must not be followed either
    let loc: Option<&[u8]> = [None, Some(&b"\xff"[..]), Some(&b"/ok\xff"[..]), Some(&b"\x80http://a.test/"[..])][(idx % 4) as usize];
    let earlier_textual = (36..72).contains(&idx);
    let cfg = ReqCfg::new(["GET", "POST", "HEAD"][(idx / 4 % 3) as usize], "http://a.test/x");
    let f = match fast_to_recv(&cfg) {
        Ok(f) => f,
        Err(e) => return rec.fail("C14/setup", e),
    };
    let mut h = RespHead::new(false, [301u16, 302, 307][(idx / 12 % 3) as usize]);
    if earlier_textual && loc.is_some() {
        h.fields.push(Field::new("Location", b"https://other.test/fallback"));
        h.fields.push(Field::new("X-Between", b"1"));
    }
    if let Some(l) = loc {
        h.fields.push(Field::new("Location", l));
    }
    h.fields.push(Field::new("Content-Length", b"0"));
    let mut stream = Vec::new();
    let stale_interim = idx >= 72;
    if stale_interim {
        // an unsolicited interim response naming a target: it is not the redirect's Location
        stream.extend_from_slice(b"HTTP/1.1 100 Continue\r\nLocation: http://other.test/landing\r\n\r\n");
        if idx % 2 == 0 {
            stream.extend_from_slice(b"HTTP/1.1 103 Early Hints\r\nLocation: http://other.test/hint\r\n\r\n");
        }
    }
    stream.extend_from_slice(&h.render());
    rec.call();
    match fast_response(f, &stream) {
        Ok((End::Redirect(mut r), ..)) => {
            let res = guarded(move || r.as_new_flow(RedirectAuthHeaders::Never).map(|o| o.map(|f| f.uri().to_string())));
            rec.cov(if stale_interim && loc.is_none() { "missing-location-after-interim-with-location" } else if loc.is_none() { "missing-location" } else if earlier_textual { "non-textual-last-location-after-textual" } else { "non-textual-location" });
            match res {
                Err((l, m)) => rec.fail(&format!("C14/{}", panic_sig(&l, &m)), format!("{} at {}", m, l)),
                Ok(Err(_)) => {}
                Ok(Ok(v)) => rec.fail(
                    if loc.is_none() { "C14/missing-location-not-an-error" } else if earlier_textual { "C14/earlier-location-used-instead-of-last" } else { "C14/non-textual-location-followed" },
                    format!("Location {:?}: as_new_flow -> Ok({:?})", loc.map(esc), v),
                ),
            }
        }
        Ok(_) => rec.fail("C14/no-redirect-state", "3xx did not reach the redirect state".into()),
        Err(_) => rec.cov(if stale_interim { "interim-with-fields-refused" } else { "non-textual-location-refused-by-parser" }),
    }
}

/// With `allow_partial_redirect(true)` a 3xx head without its final empty line may be accepted; if it
/// is, the redirect still goes to the LAST Location it carried.
fn partial_locations_case(idx: u64, rec: &mut Rec) {
    use ureq_proto::client::flow::RecvResponseResult;
    let status = [301u16, 302, 307][(idx % 3) as usize];
    let first: &[u8] = [&b"http://wrong.test/first"[..], b"/first", b"//wrong.test/x"][(idx / 3 % 3) as usize];
    let last: &[u8] = [&b"http://b.test/z?k=v"[..], b"/last/one", b"?only=query"][(idx / 9 % 3) as usize];
    let cut_back = [2usize, 1][(idx / 27 % 2) as usize];
    let base = "http://a.test/dir/file?q=1";
    let mut h = RespHead::new(false, status);
    h.fields.push(Field::new("Location", first));
    // (every other case: the field between the two has an empty value)
    h.fields.push(Field::new("X-Between", if idx % 2 == 0 { &b"1"[..] } else { &b""[..] }));
    h.fields.push(Field::new("Location", last));
    let full = h.render();
    let truncated = &full[..full.len() - cut_back];
    let mut f = match fast_to_recv(&ReqCfg::new("GET", base)) {
        Ok(f) => f,
        Err(e) => return rec.fail("C14/setup", e),
    };
    f.allow_partial_redirect(true);
    rec.call();
    match f.try_response(truncated) {
        Ok((_, Some(_))) => {}
        _ => {
            rec.cov("partial-two-locations/not-accepted");
            return;
        }
    }
    let mut r = match f.proceed() {
        Some(RecvResponseResult::Redirect(r)) => r,
        _ => return rec.fail("C14/no-redirect-state", "accepted truncated redirect did not reach the redirect state".into()),
    };
    rec.call();
    let want = normalise(&UriRef { fragment: None, ..resolve(&split_uri(base), &split_uri(std::str::from_utf8(last).unwrap())) });
    match r.as_new_flow(RedirectAuthHeaders::Never) {
        Ok(Some(nf)) => {
            rec.cov("partial-two-locations/followed");
            let got = uri_norm(nf.uri());
            if got != want {
                rec.fail(
                    "C14/first-location-used",
                    format!("truncated {} with Location {:?} then {:?} (opt-in): new flow has {} but the last Location resolves to {}", status, esc(first), esc(last), got, want),
                );
            }
        }
        other => rec.fail("C14/resolvable-location-refused", format!("{:?}", other.map(|o| o.map(|f| f.uri().to_string())))),
    }
}

impl Property for P {
    fn id(&self) -> &'static str {
        "C14"
    }
    fn rule(&self) -> String {
        "chains of 1..4 redirects; Locations from a clean grammar on which RFC 3986 and WHATWG agree (absolute http/https with and without ports incl. explicit defaults and empty path, scheme-relative, path-absolute, relative with ./ ../ and dotted segment names, query-only, empty, fragments), 1..3 Location fields per response (last counts). Oracle: an independent implementation of RFC 3986 section 5.2 (validated on the section 5.4 examples) applied to the URI of the request just made; compared after scheme-based normalisation with Flow<Prepare>::uri(); fragment must be gone; the request line must carry that URI's path and query and Host its host (checked on the wire for the last and for intermediate hops). Missing and non-UTF-8 Locations must be errors. A hostile list (backslashes, userinfo tricks, bad ports, IPv6, other schemes, control characters, percent-encoded dots, schemes without slashes, empty authorities) is met on the first and on the second hop and judged by the RFC 3986 reading of its authority: a followed reference without scheme and authority stays on the authority of the request just made, one with a scheme and no authority, or with an empty authority, is not followed; beyond that no panic, and never a request to a host that is neither the base host nor named in the Location. Path and query arrive as they stand (sub-delims, percent-encoded octets in either case; the apostrophe in a query is watched by a workload of its own, a listed known finding). Origin-form and authority-form requests have no base: only an absolute Location may be followed. The wire workload runs GET/HEAD/OPTIONS/TRACE/POST/DELETE through 301/302/303/307/308, a quarter of them with the Host of the first request spelled out; the hostile list includes 56 non-textual values around 256 bytes. class = reference kind x base shape x hop. unresolvable: 6 methods x 5 statuses x 8 textual Locations without a resolvable host are an error in every cell. Responses with several Location fields may say Connection: close in front of them.".into()
    }
    fn assumptions(&self) -> Vec<String> {
        vec![
            "the full comparison (URI, request line, Host) is made on the clean grammar; hostile values are judged by what RFC 3986 says about their authority (none, empty, or the current one) and otherwise only by no-panic and never-a-host-nobody-named".into(),
            "section 5.2.2's non-strict reading (a scheme equal to the base's may be dropped: http:g) is accepted as well as the strict one".into(),
        ]
    }
    fn workloads(&self, tier: Tier) -> Vec<Workload> {
        vec![
            Workload::new("chains", tier.pick(20_000, 8_000_000), false, "random clean chains, URI compared at every hop"),
            Workload::new("wire", tier.pick(5_000, 2_000_000), false, "request line and Host of every intermediate hop"),
            Workload::new("unresolvable", 6 * 5 * 8, true, "6 methods x 5 statuses x 8 textual Locations without a resolvable host: an error in every cell"),
            Workload::new("long-fragment", 36, true, "3 bases x 4 references x fragments of 65500 / 65536 / 70000 bytes: the fragment is dropped, the target is short"),
            Workload::new("apostrophe", 72, true, "3 bases x 8 Locations with an apostrophe in query or path (and controls) x 3 statuses: path and query must arrive as they stand"),
            Workload::new("hostile", ((HOSTILE.len() + LONG_NON_TEXTUAL) * 6) as u64, true, "hostile Locations (61 hand-picked + 56 long non-textual ones around 256 bytes) x 3 bases x met on the first or on the second hop"),
            Workload::new("origin-form", 6 * 12 * 3 * 3, true, "requests in origin-form and authority-form (http:80, https:443, a.test:443) with the Host spelled out x 12 Locations x 3 methods x 3 statuses: no absolute base to resolve against"),
            Workload::new("partial-two-locations", 54, true, "opt-in truncated 3xx heads carrying two different Location fields"),
            Workload::new("missing", 108, true, "missing / non-textual Location, alone, as the last of several fields, and after interim responses that carry a Location"),
        ]
    }
    fn run_case(&self, wl: &str, idx: u64, seed: u64, rec: &mut Rec) {
        let mut rng = Rng::derive(seed, wl, idx);
        match wl {
            "chains" => chain_case(&mut rng, rec),
            "wire" => wire_case(&mut rng, rec),
            "hostile" => hostile_case(idx, rec),
            "apostrophe" => apostrophe_case(idx, rec),
            "long-fragment" => long_fragment_case(idx, rec),
            "unresolvable" => unresolvable_case(idx, rec),
            "origin-form" => origin_form_case(idx, rec),
            "partial-two-locations" => partial_locations_case(idx, rec),
            _ => missing_case(idx, rec),
        }
    }
    fn floors(&self, _tier: Tier) -> Vec<(String, u64)> {
        let mut v = vec![];
        for k in ["abs-original-host-same-scheme", "abs-any-host", "scheme-relative", "path-absolute", "path-absolute-dots", "path-relative-dots", "path-relative", "query-only", "empty", "abs-empty-path"] {
            v.push((format!("{}/*", k), 50));
        }
        for hop in 2..=4 {
            v.push((format!("path-relative-dots/base-file/hop{}", hop), 2));
            v.push((format!("path-relative/base-dir/hop{}", hop), 2));
        }
        v.push(("several-location-fields".into(), 50));
        v.push(("hostile/on-second-hop".into(), 50));
        v.push(("hostile/refused".into(), 50));
        v.push(("self-absolute/*".into(), 20));
        v.push(("empty-query/*".into(), 20));
        v.push(("despite-method-on-redirected-flow".into(), 50));
        v.push(("empty/base-file/hop2".into(), 2));
        v.push(("wire-checked".into(), 500));
        v.push(("missing-location".into(), 5));
        v.push(("partial-two-locations/followed".into(), 20));
        v.push(("origin-form/followed".into(), 20));
        v.push(("origin-form/refused".into(), 20));
        v.push(("non-textual-last-location-after-textual".into(), 5));
        v.push(("hostile/*".into(), 50));
        v
    }
}
