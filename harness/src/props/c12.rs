//! C12 — no server byte sequence can panic, hang or desynchronise the client.
use super::c01::gen_chain;
use crate::core::{guarded, panic_sig, Property, Rec, Tier, Workload};
use crate::drive::*;
use crate::hookmon;
use crate::json::{esc, esc_short};
use crate::model::*;
use crate::rng::Rng;
use crate::wire::*;
use ureq_proto::client::flow::state::{Await100, RecvBody, RecvResponse};
use ureq_proto::client::flow::{RecvResponseResult, SendRequestResult};

pub struct P;

const ALPHABET: [u8; 11] = [b'0', b'5', b'a', b'f', b';', b':', b' ', b'\r', b'\n', b'x', 0xff];
const TOKENS: [&[u8]; 20] = [
    b"HTTP/1.1 ", b"HTTP/1.0 ", b"200 ", b"100 ", b"302 ", b"OK", b"\r\n", b"\r", b"\n", b"name: ", b"Content-Length: ", b"Transfer-Encoding: ", b"chunked", b"close", b"Location: ", b"Connection: ", b"5", b"/x", b"HTTP/2 ",
    b"\xff",
];

#[derive(Clone, Copy, Debug, PartialEq, Eq)]
enum Target {
    Await100,
    Response,
    Chunked,
    Length5,
    Close,
}

const TARGETS: [Target; 5] = [Target::Await100, Target::Response, Target::Chunked, Target::Length5, Target::Close];

fn await_flow() -> F<Await100> {
    let cfg = ReqCfg::new("POST", "http://h.test/").h("expect", b"100-continue");
    let mut f = build_flow(&cfg).unwrap().proceed();
    write_head_big(&mut f).unwrap();
    match f.proceed() {
        Ok(Some(SendRequestResult::Await100(a))) => a,
        _ => panic!("harness: expected Await100"),
    }
}

fn body_flow(head: &[u8]) -> F<RecvBody> {
    let mut f = super::c05::recv_flow("GET");
    f.try_response(head).unwrap();
    match f.proceed() {
        Some(RecvResponseResult::RecvBody(b)) => b,
        _ => panic!("harness: expected RecvBody"),
    }
}

fn is_subsequence(needle: &[u8], hay: &[u8]) -> bool {
    let mut i = 0;
    for b in hay {
        if i < needle.len() && needle[i] == *b {
            i += 1;
        }
    }
    i == needle.len()
}

enum Any {
    A(F<Await100>),
    R(F<RecvResponse>),
    B(F<RecvBody>),
}

/// Offer `s` to one server-facing call, either whole or as a growing window, and check the
/// C12 clauses on every call. Afterwards make state-advancing calls.
fn offer(target: Target, s: &[u8], incremental: bool, rec: &mut Rec) {
    let mut flow = match target {
        Target::Await100 => Any::A(await_flow()),
        Target::Response => {
            let mut f = super::c05::recv_flow("GET");
            // every other input (by length and first byte) meets a caller that opted in to truncated redirect heads:
            // whatever that accepts, every call returns normally and within what was offered
            if (s.len() + s.first().copied().unwrap_or(0) as usize) % 2 == 1 {
                f.allow_partial_redirect(true);
                rec.cov("response/opt-in-on");
            }
            Any::R(f)
        }
        Target::Chunked => Any::B(body_flow(b"HTTP/1.1 200 OK\r\nTransfer-Encoding: chunked\r\n\r\n")),
        Target::Length5 => Any::B(body_flow(b"HTTP/1.1 200 OK\r\nContent-Length: 5\r\n\r\n")),
        Target::Close => Any::B(body_flow(b"HTTP/1.1 200 OK\r\n\r\n")),
    };
    let mut consumed = 0usize;
    let mut produced: Vec<u8> = vec![];
    let ends: Vec<usize> = if incremental { (1..=s.len()).collect() } else { vec![s.len()] };
    let mut errored = false;
    let mut calls_after_err = 0;
    'outer: for end in ends {
        for _round in 0..4 {
            let window = &s[consumed..end];
            let osz = if incremental { 3 } else { 64 };
            let mut buf = vec![0u8; osz];
            rec.call();
            let r = guarded(|| {
                hookmon::arm(4 * (window.len() as u64 + osz as u64) + 64);
                let r: Result<(usize, usize, bool), String> = match &mut flow {
                    Any::A(f) => f.try_read_100(window).map(|n| (n, 0, false)).map_err(|e| format!("{:?}", e)),
                    Any::R(f) => f.try_response(window).map(|(n, r)| (n, 0, r.is_some())).map_err(|e| format!("{:?}", e)),
                    Any::B(f) => f.read(window, &mut buf).map(|(c, p)| (c, p, false)).map_err(|e| format!("{:?}", e)),
                };
                hookmon::disarm();
                r
            });
            hookmon::disarm();
            rec.ev(|| format!("{:?} <- {:?} -> {:?}", target, esc_short(window, 40), r));
            match r {
                Err((loc, msg)) => {
                    return rec.fail(
                        &format!("C12/{}", panic_sig(&loc, &msg)),
                        format!("{:?} offered {:?}{}: {} at {}", target, esc_short(&s[..end], 60), if errored { " (after an earlier error)" } else { "" }, msg, loc),
                    );
                }
                Ok(Err(e)) => {
                    rec.cov(&format!("{:?}/Err/{}", target, e.split('(').next().unwrap_or("?")));
                    errored = true;
                    calls_after_err += 1;
                    if calls_after_err > 2 {
                        break 'outer;
                    }
                    break;
                }
                Ok(Ok((c, p, got_response))) => {
                    rec.cov(&format!("{:?}/Ok/{}", target, if c > 0 || p > 0 { "progress" } else { "nothing" }));
                    if c > window.len() || p > osz {
                        return rec.fail("C12/counts-exceed-offer", format!("{:?}: ({}, {}) for ({}, {})", target, c, p, window.len(), osz));
                    }
                    produced.extend_from_slice(&buf[..p]);
                    let eaten = &s[consumed..consumed + c];
                    match target {
                        Target::Length5 | Target::Close => {
                            if buf[..p] != eaten[..] {
                                return rec.fail("C12/output-not-a-copy", format!("{:?}: produced {:?} from consumed {:?}", target, esc_short(&buf[..p], 30), esc_short(eaten, 30)));
                            }
                        }
                        Target::Chunked => {
                            if !is_subsequence(&buf[..p], eaten) {
                                return rec.fail("C12/output-not-a-copy", format!("chunked: produced {:?} is not an in-order copy of bytes in {:?}", esc_short(&buf[..p], 30), esc_short(eaten, 30)));
                            }
                        }
                        _ => {}
                    }
                    consumed += c;
                    if got_response {
                        break 'outer;
                    }
                    if let Any::A(f) = &flow {
                        // half of the growing-window callers go by the return value alone ("Ok(0): not enough
                        // data yet, continue waiting") and look again although the decision has been made
                        let by_return_value = incremental && s.len() % 2 == 0;
                        if !f.can_keep_await_100() && !(by_return_value && c == 0) {
                            break 'outer;
                        }
                    }
                    if c == 0 && p == 0 {
                        break;
                    }
                }
            }
        }
    }
    // state-advancing calls afterwards must not panic either
    rec.call();
    let r = guarded(move || match flow {
        Any::A(f) => {
            if let Ok(n) = f.proceed() {
                match n {
                    ureq_proto::client::flow::Await100Result::SendBody(mut s) => {
                        let mut b = [0u8; 32];
                        let _ = s.write(b"x", &mut b);
                        let _ = s.proceed();
                    }
                    ureq_proto::client::flow::Await100Result::RecvResponse(mut r) => {
                        let _ = r.try_response(b"HTTP/1.1 403 No\r\n\r\n");
                        let _ = r.proceed();
                    }
                }
            }
        }
        Any::R(mut f) => {
            let _ = f.can_proceed();
            // offering complete heads again (a caller that peeks, or that wants what follows a 1xx)
            for _ in 0..6 {
                let _ = f.try_response(b"HTTP/1.1 200 OK\r\nConnection: close\r\n\r\n");
            }
            if let Some(n) = f.proceed() {
                match n {
                    RecvResponseResult::RecvBody(mut b) => {
                        let mut o = [0u8; 8];
                        let _ = b.read(b"0\r\n\r\n", &mut o);
                        let _ = b.proceed();
                    }
                    RecvResponseResult::Redirect(mut r) => {
                        let first = r.as_new_flow(ureq_proto::client::flow::RedirectAuthHeaders::SameHost);
                        if !matches!(first, Ok(Some(_))) {
                            // declined or refused: asking again, with the other policy, is a call like any other
                            let _ = r.as_new_flow(ureq_proto::client::flow::RedirectAuthHeaders::Never);
                        }
                        let _ = r.proceed();
                    }
                    RecvResponseResult::Cleanup(c) => {
                        let _ = c.must_close_connection();
                    }
                }
            }
        }
        Any::B(f) => {
            let _ = f.can_proceed();
            let _ = f.is_on_chunk_boundary();
            if let Some(n) = f.proceed() {
                match n {
                    ureq_proto::client::flow::RecvBodyResult::Redirect(r) => {
                        let _ = r.proceed();
                    }
                    ureq_proto::client::flow::RecvBodyResult::Cleanup(c) => {
                        let _ = c.close_reason();
                    }
                }
            }
        }
    });
    if let Err((loc, msg)) = r {
        rec.fail(&format!("C12/{}-when-advancing", panic_sig(&loc, &msg)), format!("{:?} after {:?}: advancing panicked: {} at {}", target, esc_short(s, 60), msg, loc));
    }
}

fn alphabet_case(idx: u64, len: u32, rec: &mut Rec) {
    let per = 11u64.pow(len);
    let t = TARGETS[(idx / (per * 2)) as usize % 5];
    let incremental = (idx / per) % 2 == 1;
    let mut x = idx % per;
    let mut s = Vec::with_capacity(len as usize);
    for _ in 0..len {
        s.push(ALPHABET[(x % 11) as usize]);
        x /= 11;
    }
    offer(t, &s, incremental, rec);
}

fn token_case(idx: u64, len: u32, rec: &mut Rec) {
    let per = 20u64.pow(len);
    let t = [Target::Await100, Target::Response][((idx / (per * 2)) % 2) as usize];
    let incremental = (idx / per) % 2 == 1;
    let mut x = idx % per;
    let mut s = Vec::new();
    for _ in 0..len {
        s.extend_from_slice(TOKENS[(x % 20) as usize]);
        x /= 20;
    }
    offer(t, &s, incremental, rec);
}

/// byte sweeps through the positions where httparse and the http crate could disagree
fn sweep_case(idx: u64, rec: &mut Rec) {
    let b = (idx % 256) as u8;
    let kind = idx / 256;
    let s: Vec<u8> = match kind {
        0 => [b"HTTP/1.1 200 OK\r\nX".as_ref(), &[b], b"Y: v\r\n\r\n"].concat(),
        1 => [b"HTTP/1.1 200 OK\r\nX: a".as_ref(), &[b], b"b\r\n\r\n"].concat(),
        2 => [b"HTTP/1.1 200 O".as_ref(), &[b], b"K\r\nX: y\r\n\r\n"].concat(),
        3 => [b"HTTP/1.1 2".as_ref(), &[b], b"0 OK\r\n\r\n"].concat(),
        4 => [b"HTTP/1.".as_ref(), &[b], b" 200 OK\r\n\r\n"].concat(),
        5 => [b"HTTP/1.1 302 F\r\nLocation: /a".as_ref(), &[b], b"b\r\nContent-Length: 0\r\n\r\n"].concat(),
        6 => [b"HTTP/1.1 200 OK\r\nContent-Length: 1".as_ref(), &[b], b"\r\n\r\n"].concat(),
        // (the first digit of the status code, and codes below 100: three digits that are no status)
        8 => [b"HTTP/1.1 ".as_ref(), &[b], b"99 Odd\r\nContent-Length: 0\r\n\r\n"].concat(),
        9 => [b"HTTP/1.1 0".as_ref(), &[b], b"0 \r\n\r\n"].concat(),
        _ => [b"HTTP/1.1 200 OK\r\nTransfer-Encoding: chunke".as_ref(), &[b], b"\r\n\r\n"].concat(),
    };
    offer(Target::Response, &s, false, rec);
    offer(Target::Await100, &s, false, rec);
    // the same byte inside a chunk size line and as chunk terminator
    let c: Vec<u8> = [b"1".as_ref(), &[b], b"\r\nab\r\n0\r\n\r\n"].concat();
    offer(Target::Chunked, &c, true, rec);
    let c: Vec<u8> = [b"2\r\nab".as_ref(), &[b], b"\n0\r\n\r\n"].concat();
    offer(Target::Chunked, &c, false, rec);
}

/// chunk size lines of every length 1..=24 in several digit patterns (numeric range edges of the
/// size parser: 16 hex digits fill a usize, the sanity limit is 20 bytes)
fn size_line_case(idx: u64, rec: &mut Rec) {
    let len = 1 + (idx % 24) as usize;
    let pat = (idx / 24) % 8;
    let ext = (idx / 192) % 2 == 1;
    let mut digits: Vec<u8> = match pat {
        0 => vec![b'f'; len],
        1 => {
            let mut v = vec![b'0'; len];
            v[0] = b'1';
            v
        }
        2 => {
            let mut v = vec![b'0'; len];
            v[len - 1] = b'2';
            v
        }
        3 => vec![b'F'; len],
        4 => (0..len).map(|i| b"fedcba9876543210"[i % 16]).collect(),
        5 => {
            let mut v = vec![b'8'; len];
            v[0] = b'7';
            v
        }
        6 => {
            let mut v = vec![b'0'; len];
            v[0] = b'+';
            v
        }
        _ => {
            let mut v = vec![b' '; len];
            v[len / 2] = b'3';
            v
        }
    };
    if ext {
        digits.extend_from_slice(b";x=1");
    }
    let mut s = digits;
    s.extend_from_slice(b"\r\nab\r\n0\r\n\r\n");
    rec.cov(&format!("size-line/len{}", if len <= 16 { "<=16" } else if len <= 20 { "17..20" } else { ">20" }));
    offer(Target::Chunked, &s, false, rec);
    offer(Target::Chunked, &s, true, rec);
}

fn mutate(rng: &mut Rng, stream: &mut Vec<u8>) -> &'static str {
    if stream.is_empty() {
        stream.extend_from_slice(b"\r\n");
        return "empty";
    }
    match rng.below(18) {
        17 => {
            // hostile values in the fields the client interprets itself
            if let Some(i) = stream.windows(2).position(|w| w == b"\r\n") {
                let name: &[u8] = *rng.pick(&[&b"Connection"[..], b"Transfer-Encoding", b"Content-Length", b"Location", b"connection", b"Expect"]);
                let value: &[u8] = *rng.pick(&[&b""[..], b",", b", keep-alive", b"keep-alive,", b",,", b" ", b"\t", b", ,", b"close,", b",close", b"chunked,", b",chunked", b"0,0", b";", b"\xff,"]);
                let mut line = name.to_vec();
                line.extend_from_slice(b": ");
                line.extend_from_slice(value);
                line.extend_from_slice(b"\r\n");
                stream.splice(i + 2..i + 2, line);
            }
            "field-value-games"
        }
        0 => {
            let i = rng.usize_in(0, stream.len() - 1);
            stream[i] ^= 1 << rng.below(8);
            "bit-flip"
        }
        14 => {
            // a flood of interim responses in front of (or instead of) the real one
            let unit: &[u8] = *rng.pick(&[
                &b"HTTP/1.1 100 Continue\r\n\r\n"[..],
                b"HTTP/1.1 100 Continue\r\nConnection: close\r\n\r\n",
                b"HTTP/1.1 100 Continue\r\nX: y\r\n\r\n",
                b"HTTP/1.1 102 Processing\r\n\r\n",
                b"HTTP/1.1 103 Early Hints\r\nConnection: close\r\nLink: </s>\r\n\r\n",
                b"HTTP/1.0 100 \r\nConnection: close\r\nConnection: close\r\n\r\n",
            ]);
            let n = *rng.pick(&[2usize, 3, 5, 6, 7, 9, 40]);
            let mut flood = Vec::new();
            for _ in 0..n {
                flood.extend_from_slice(unit);
            }
            stream.splice(0..0, flood);
            "flood-interim"
        }
        15 => {
            // the first complete head repeated
            if let Some(i) = stream.windows(4).position(|w| w == b"\r\n\r\n") {
                let head = stream[..i + 4].to_vec();
                if head.len() < 2000 {
                    let n = *rng.pick(&[2usize, 5, 6, 7, 30]);
                    let mut flood = Vec::new();
                    for _ in 0..n {
                        flood.extend_from_slice(&head);
                    }
                    stream.splice(0..0, flood);
                }
            }
            "flood-head"
        }
        16 => {
            // one field line repeated many times
            if let Some(i) = stream.windows(2).position(|w| w == b"\r\n") {
                let line: &[u8] = *rng.pick(&[&b"Connection: close\r\n"[..], b"Location: /x\r\n", b"Content-Length: 3\r\n", b"Transfer-Encoding: chunked\r\n", b"Set-Cookie: a=b\r\n"]);
                let n = *rng.pick(&[2usize, 5, 6, 64, 127, 128, 129, 300]);
                let mut flood = Vec::new();
                for _ in 0..n {
                    flood.extend_from_slice(line);
                }
                stream.splice(i + 2..i + 2, flood);
            }
            "flood-field"
        }
        1 => {
            let i = rng.usize_in(0, stream.len() - 1);
            let n = rng.usize_in(1, 8).min(stream.len() - i);
            stream.drain(i..i + n);
            "deletion"
        }
        2 => {
            let i = rng.usize_in(0, stream.len() - 1);
            let n = rng.usize_in(1, 40).min(stream.len() - i);
            let piece = stream[i..i + n].to_vec();
            let at = rng.usize_in(0, stream.len());
            stream.splice(at..at, piece);
            "duplication"
        }
        3 => {
            let at = rng.usize_in(0, stream.len());
            let other = *rng.pick(&[&b"HTTP/1.1 200 OK\r\n"[..], b"0\r\n\r\n", b"\r\n\r\n", b"Content-Length: 5\r\n", b"Transfer-Encoding: chunked\r\n", b"ffffffffffffffff\r\n", b"Connection: close\r\n"]);
            stream.splice(at..at, other.iter().copied());
            "splice"
        }
        4 => {
            // oversize number: replace a digit run
            if let Some(i) = stream.iter().position(|c| c.is_ascii_digit()) {
                let big = *rng.pick(&[&b"99999999999999999999999"[..], b"18446744073709551616", b"ffffffffffffffffff", b"-1", b"0000000000000000000000001"]);
                stream.splice(i..i + 1, big.iter().copied());
            }
            "oversize-number"
        }
        5 => {
            let at = rng.usize_in(0, stream.len());
            let what = *rng.pick(&[&b"\r"[..], b"\n", b"\r\r\n", b"\n\r"]);
            stream.splice(at..at, what.iter().copied());
            "stray-crlf"
        }
        6 => {
            // more than 128 fields
            if let Some(i) = stream.windows(2).position(|w| w == b"\r\n") {
                let mut extra = Vec::new();
                for k in 0..rng.usize_in(120, 200) {
                    extra.extend_from_slice(format!("X-{}: v\r\n", k).as_bytes());
                }
                stream.splice(i + 2..i + 2, extra);
            }
            "many-fields"
        }
        7 => {
            let n = rng.usize_in(0, stream.len());
            stream.truncate(n);
            "truncation"
        }
        8 => {
            // gigantic header name / value / reason
            if let Some(i) = stream.windows(2).position(|w| w == b"\r\n") {
                let n = *rng.pick(&[65_535usize, 65_536, 70_000]);
                let mut extra = vec![b'n'; n];
                extra.extend_from_slice(b": v\r\n");
                stream.splice(i + 2..i + 2, extra);
            }
            "huge-name"
        }
        9 => {
            if let Some(i) = stream.windows(2).position(|w| w == b"\r\n") {
                let mut extra = b"X-Big: ".to_vec();
                extra.extend_from_slice(&vec![b'v'; 100_000]);
                extra.extend_from_slice(b"\r\n");
                stream.splice(i + 2..i + 2, extra);
            }
            "huge-value"
        }
        10 => {
            // chunk size line games
            if let Some(i) = stream.windows(4).position(|w| w == b"\r\n\r\n") {
                let games = *rng.pick(&[&b"1;"[..], b"00000000000000000000001\r\n", b" 1 \r\n", b"1\r\na", b"g\r\n", b"\xff\r\n", b"1;;;;;;;;;;;;;;;;;;;;;;;;;;;\r\n"]);
                stream.splice(i + 4..i + 4, games.iter().copied());
            }
            "chunk-line-games"
        }
        11 => {
            let at = rng.usize_in(0, stream.len());
            let jn = rng.usize_in(1, 30);
            let junk = rng.bytes(jn);
            stream.splice(at..at, junk);
            "random-insert"
        }
        12 => {
            // several Content-Length / Transfer-Encoding / Location fields
            if let Some(i) = stream.windows(2).position(|w| w == b"\r\n") {
                let extra = *rng.pick(&[&b"Content-Length: 3\r\nContent-Length: 4\r\n"[..], b"Transfer-Encoding: chunked\r\nTransfer-Encoding: gzip\r\n", b"Location: \xff\xfe\r\n", b"Location: http://[::1\r\n", b"Location: //\r\n", b"Content-Length: \r\n"]);
                stream.splice(i + 2..i + 2, extra.iter().copied());
            }
            "conflicting-fields"
        }
        _ => {
            let i = rng.usize_in(0, stream.len() - 1);
            stream[i] = *rng.pick(&[0u8, 0xff, b'\r', b'\n', b' ', b':', b';']);
            "byte-replace"
        }
    }
}

/// Whatever redirect the server sends, the calls a caller may make in the Redirect state afterwards - ask
/// for a new flow, ask again with the other policy when none came, read the status, move on - return.
/// Long runs of one small unit offered in a SINGLE buffer: interim responses, empty lines, tiny chunks, trailer
/// lines. Whatever the crate does per unit (loop, recursion, list), the call must return. A stack overflow or an
/// abort kills the whole process and cannot be caught in it, so every cell runs in a child process of its own
/// (`deep-input-inner`, through the replay entry of this binary) and the parent judges how the child ended.
const DEEP_UNITS: [(&str, &[u8]); 6] = [
    ("100-continue", b"HTTP/1.1 100 Continue\r\n\r\n"),
    ("102-processing", b"HTTP/1.1 102 Processing\r\n\r\n"),
    ("103-early-hints", b"HTTP/1.1 103 Early Hints\r\nLink: </s>\r\n\r\n"),
    ("empty-lines", b"\r\n"),
    ("tiny-chunks", b"1\r\nx\r\n"),
    ("trailer-lines", b"T: v\r\n"),
];
const DEEP_COUNTS: [usize; 4] = [300, 2_000, 10_000, 40_000];

fn deep_input_inner(idx: u64, rec: &mut Rec) {
    let (name, unit) = DEEP_UNITS[(idx % 6) as usize];
    let count = DEEP_COUNTS[(idx / 6 % 4) as usize];
    let route = idx / 24 % 2;
    let mut input = Vec::with_capacity(unit.len() * count + 64);
    let chunked_head = b"HTTP/1.1 200 OK\r\nTransfer-Encoding: chunked\r\n\r\n";
    let body_case = matches!(name, "tiny-chunks" | "trailer-lines");
    if name == "trailer-lines" {
        input.extend_from_slice(b"0\r\n");
    }
    for _ in 0..count {
        input.extend_from_slice(unit);
    }
    if body_case {
        input.extend_from_slice(if name == "tiny-chunks" { &b"0\r\n\r\n"[..] } else { &b"\r\n"[..] });
    } else {
        input.extend_from_slice(b"HTTP/1.1 200 OK\r\nContent-Length: 0\r\n\r\n");
    }
    rec.ev(|| format!("{} x {} in one buffer of {} bytes, route {}", name, count, input.len(), route));
    // route 0: a plain GET; route 1: a POST with Expect whose caller gave up waiting (the late-100 path)
    let f = if route == 0 { Ok(super::c05::recv_flow("GET")) } else { super::c05::recv_flow_via(super::c05::Route::ExpectGaveUp, b"").ok_or("expect route".to_string()) };
    let mut f = match f {
        Ok(f) => f,
        Err(e) => return rec.fail("C12/setup", e),
    };
    if body_case {
        match f.try_response(chunked_head) {
            Ok((n, Some(_))) if n == chunked_head.len() => {}
            other => return rec.fail("C12/setup", format!("{:?}", other.map(|v| v.0))),
        }
        let mut b = match f.proceed() {
            Some(ureq_proto::client::flow::RecvResponseResult::RecvBody(b)) => b,
            _ => return rec.fail("C12/setup", "no body state".into()),
        };
        let mut out = vec![0u8; count + 64];
        let mut used = 0usize;
        for _ in 0..(count + 8) {
            rec.call();
            match b.read(&input[used..], &mut out) {
                Ok((0, 0)) => break,
                Ok((c, _)) => used += c,
                Err(_) => break,
            }
            if b.can_proceed() {
                break;
            }
        }
        rec.cov(&format!("deep-input-inner/{}", name));
        return;
    }
    // heads: keep offering what is left until a final response or nothing moves
    let mut used = 0usize;
    for _ in 0..(count + 8) {
        rec.call();
        match f.try_response(&input[used..]) {
            Ok((n, r)) => {
                used += n;
                if n == 0 || (r.is_some() && f.can_proceed()) {
                    break;
                }
            }
            Err(_) => break,
        }
    }
    rec.cov(&format!("deep-input-inner/{}", name));
}

fn deep_input_case(idx: u64, rec: &mut Rec) {
    let (name, _) = DEEP_UNITS[(idx % 6) as usize];
    let count = DEEP_COUNTS[(idx / 6 % 4) as usize];
    let dir = std::env::var("VERIF_DIR").unwrap_or_else(|_| "/tmp".into());
    let _ = std::fs::create_dir_all(format!("{}/replays", dir));
    let path = format!("{}/replays/C12-deep-input-inner-{}.json", dir, idx);
    if std::fs::write(&path, format!("{{\"property\": \"C12\", \"workload\": \"deep-input-inner\", \"index\": {}, \"seed\": 1}}\n", idx)).is_err() {
        return rec.stat("deep-input/could-not-write-the-child-description", 1);
    }
    let exe = match std::env::current_exe() {
        Ok(e) => e,
        Err(_) => return rec.stat("deep-input/no-exe", 1),
    };
    rec.call();
    let out = std::process::Command::new(exe).args(["C12", "--replay", &path]).env("VERIF_DIR", &dir).env("VERIF_REPLAY_LIMIT_S", "120").output();
    let out = match out {
        Ok(o) => o,
        Err(_) => return rec.stat("deep-input/spawn-failed", 1),
    };
    rec.ev(|| format!("{} x {} in one buffer, in a process of its own -> {:?}", name, count, out.status));
    match out.status.code() {
        Some(0) => {
            let _ = std::fs::remove_file(&path);
            rec.cov(&format!("deep-input/{}/returned", name));
        }
        Some(1) => {
            let text = String::from_utf8_lossy(&out.stdout);
            let sig = text.lines().find(|l| l.trim_start().starts_with("signature:")).map(|l| l.trim().trim_start_matches("signature:").trim().to_string()).unwrap_or_else(|| "C12/deep-input-violation".into());
            rec.fail(&sig, format!("{} x {} in one buffer: {}", name, count, text.lines().find(|l| l.trim_start().starts_with("what:")).unwrap_or("").trim()));
        }
        Some(2) => rec.stat("deep-input/child-could-not-run", 1),
        _ => {
            // no exit code: killed by a signal (stack overflow -> SIGSEGV / SIGABRT), or an abort inside the call
            use std::os::unix::process::ExitStatusExt;
            let sigl = out.status.signal().unwrap_or(0);
            let err = String::from_utf8_lossy(&out.stderr);
            rec.fail(
                &format!("C12/process-killed-in-a-server-facing-call/{}", name),
                format!("{} x {} offered in one buffer: the process was killed by signal {} ({}); a call did not return normally; replay the child with {}", name, count, sigl, err.lines().last().unwrap_or("").trim(), path),
            );
        }
    }
}

/// The heads a server actually sends first, offered as a window that grows byte by byte to the call that waits for
/// a 100 and to the one that waits for a response: every prefix of the canonical spellings is met, not just the
/// ones a random cut happens to land on.
fn interim_prefix_case(idx: u64, rec: &mut Rec) {
    const HEADS: [&[u8]; 8] = [
        b"HTTP/1.1 100 Continue\r\n\r\n",
        b"HTTP/1.1 100 Continue\r\n\r\nHTTP/1.1 200 OK\r\nContent-Length: 0\r\n\r\n",
        b"HTTP/1.0 100 Continue\r\n\r\n",
        b"HTTP/1.1 100 \r\n\r\n",
        b"HTTP/1.1 100 Continue\r\nX: y\r\n\r\n",
        b"HTTP/1.1 417 Expectation Failed\r\nConnection: close\r\nContent-Length: 0\r\n\r\n",
        b"HTTP/1.1 200 OK\r\n\r\n",
        b"HTTP/1.1 302 Found\r\nLocation: /x\r\nContent-Length: 0\r\n\r\n",
    ];
    let h = HEADS[(idx % 8) as usize];
    offer(Target::Await100, h, true, rec);
    offer(Target::Response, h, true, rec);
    offer(Target::Await100, h, false, rec);
    rec.cov("interim-prefixes");
}

fn redirect_calls_case(idx: u64, rec: &mut Rec) {
    use ureq_proto::client::flow::RedirectAuthHeaders;
    let status = [301u16, 302, 303, 307, 308][(idx % 5) as usize];
    // (the last two shapes: a body announced with Expect: 100-continue, the second with the Host spelled out)
    let shape = (idx / 5 % 8) as usize;
    let (method, despite) = [("GET", false), ("POST", false), ("DELETE", false), ("HEAD", false), ("PUT", false), ("GET", true), ("POST", false), ("PUT", false)][shape];
    let loc: Option<&[u8]> = [Some(&b"http://b.test/abs?x=1"[..]), Some(b"/rel"), None, Some(b"/n\xe9"), Some(b"//c.test"), Some(b"mailto:a@b.test")][(idx / 40 % 6) as usize];
    let first_policy = if idx / 240 % 2 == 0 { RedirectAuthHeaders::Never } else { RedirectAuthHeaders::SameHost };
    let mut cfg = ReqCfg::new(method, "http://a.test/start").h("authorization", b"t").h("cookie", b"c=1");
    if shape >= 6 {
        cfg.orig.push(("expect".into(), b"100-continue".to_vec()));
        cfg.orig.push(("content-length".into(), b"3".to_vec()));
        rec.cov("redirect-calls/request-with-expect");
    }
    if shape == 7 {
        cfg.orig.push(("host".into(), b"a.test".to_vec()));
    }
    cfg.despite = despite;
    let mut head = format!("HTTP/1.1 {} R\r\n", status).into_bytes();
    if let Some(l) = loc {
        head.extend_from_slice(b"Location: ");
        head.extend_from_slice(l);
        head.extend_from_slice(b"\r\n");
    }
    head.extend_from_slice(b"Content-Length: 0\r\n\r\n");
    let r = match fast_to_recv(&cfg).and_then(|f| fast_response(f, &head)) {
        Ok((End::Redirect(r), ..)) => r,
        Ok(_) => return rec.cov("redirect-calls/no-redirect-state"),
        Err(e) => return rec.fail("C12/setup", e),
    };
    rec.call();
    let res = guarded(move || {
        let mut r = r;
        let first = r.as_new_flow(first_policy).map(|o| {
            // the flow handed out is advanced and its head written: calls made after server input as well
            o.map(|nf| {
                let mut s = nf.proceed();
                let _ = write_head_big(&mut s);
                let _ = s.can_proceed();
            })
            .is_some()
        });
        let second = if first != Ok(true) {
            let other = if first_policy == RedirectAuthHeaders::Never { RedirectAuthHeaders::SameHost } else { RedirectAuthHeaders::Never };
            Some(r.as_new_flow(other).map(|o| o.is_some()))
        } else {
            None
        };
        let _ = r.status();
        let _ = r.must_close_connection();
        let _ = r.proceed();
        (first, second)
    });
    match res {
        Err((l, m)) => rec.fail(&format!("C12/{}-in-redirect-calls", panic_sig(&l, &m)), format!("{} answered {} Location {:?}: {} at {}", method, status, loc.map(esc), m, l)),
        Ok((first, second)) => {
            rec.ev(|| format!("{} {} Location {:?}: as_new_flow -> {:?}, asked again -> {:?}", method, status, loc.map(esc), first, second));
            rec.cov(if second.is_some() { "redirect-calls/asked-twice" } else { "redirect-calls/followed" });
        }
    }
}

fn mutation_case(rng: &mut Rng, rec: &mut Rec) {
    let lane = crate::core::lane_mode();
    let body_max = if lane { 24 } else if rng.chance(1, 8) { 12_000 } else { 200 };
    let chain = gen_chain(rng, 2, body_max);
    let (ex, truth, _) = match chain.exchanges.first() {
        Some(e) => e,
        None => return,
    };
    let mut stream = chain.stream.clone();
    let n_mut = rng.usize_in(1, 3);
    let mut kinds = vec![];
    for _ in 0..n_mut {
        kinds.push(mutate(rng, &mut stream));
    }
    if lane && stream.len() > 2_000 {
        // the huge-name / huge-value / many-fields mutations are left to the native and ASan runs
        stream.truncate(2_000);
    }
    for k in &kinds {
        rec.cov(&format!("mutation/{}", k));
    }
    let huge = stream.len() > 50_000;
    let mut sched = Sched::random(rng, stream.len() < 3000);
    // one mutated exchange in four is met by a caller that opted in to truncated redirect heads and left it on
    sched.partial_on = rng.chance(1, 4);
    if lane {
        sched.arrive = *rng.pick(&[Prof::Big, Prof::Fixed(16), Prof::Mixed]);
        sched.read_out = *rng.pick(&[Prof::Big, Prof::Fixed(8)]);
        sched.head_out = Prof::Big;
        sched.body_out = Prof::Big;
        sched.body_in = Prof::Big;
    }
    if huge {
        sched.arrive = *rng.pick(&[Prof::Big, Prof::Fixed(4096), Prof::Fixed(30_000)]);
        sched.read_out = Prof::Fixed(4096);
    }
    rec.ev(|| format!("request: {} | handshake {:?} | mutations {:?} | schedule {}", ex.cfg.describe(), ex.handshake, kinds, sched.describe()));
    rec.ev(|| format!("server bytes: {:?}", esc_short(&stream, 300)));
    let flow = match build_flow(&ex.cfg) {
        Ok(f) => f,
        Err(e) => return rec.fail("C12/setup", format!("{:?}", e)),
    };
    let mut d = Driver::new(flow, &ex.cfg, &ex.req_body, &stream, truth.scen, sched);
    d.hostile = true;
    d.max_steps = 4 * (stream.len() + ex.req_body.len()) + 4096;
    let end = d.run(rec);
    match &end {
        Step::Failed { call, err } => {
            if err.contains("exceeds offered") || err.contains("consumed ") && err.contains(" offered") {
                return rec.fail("C12/counts-exceed-offer", format!("{}: {}", call, err));
            }
            rec.cov(&format!("outcome/error/{}/{}", call, err.split('(').next().unwrap_or("?")));
        }
        Step::Done => rec.cov("outcome/completed"),
        Step::Starved(s) => rec.cov(&format!("outcome/starved/{}", s.split('(').next().unwrap_or("?"))),
        Step::Capped => {
            return rec.fail("C12/step-budget/driver", format!("the exchange did not stop within {} calls; {}", d.max_steps, d.summary()));
        }
        Step::More => {}
    }
    // every produced body byte is an in-order copy of a consumed byte
    if !d.resp_body.is_empty() {
        let eaten = &stream[d.body_start.min(stream.len())..d.consumed.min(stream.len())];
        let ok = match d.body_mode {
            Some(Mode::Chunked) => is_subsequence(&d.resp_body, eaten),
            _ => d.resp_body[..] == eaten[..d.resp_body.len().min(eaten.len())] && d.resp_body.len() <= eaten.len(),
        };
        if !ok {
            return rec.fail("C12/output-not-a-copy", format!("mode {:?}: {} body bytes delivered are not an in-order copy of the {} body bytes consumed", d.body_mode, d.resp_body.len(), eaten.len()));
        }
    }
    if d.consumed > stream.len() {
        return rec.fail("C12/counts-exceed-offer", format!("consumed {} of {}", d.consumed, stream.len()));
    }
    // state-advancing calls afterwards
    let flow = std::mem::replace(&mut d.flow, AnyFlow::Gone);
    rec.call();
    let r = guarded(move || match flow {
        AnyFlow::Await100(f) => {
            let _ = f.proceed();
        }
        AnyFlow::RecvResponse(f) => {
            let _ = f.can_proceed();
            let _ = f.proceed();
        }
        AnyFlow::RecvBody(f) => {
            let _ = f.can_proceed();
            if let Some(ureq_proto::client::flow::RecvBodyResult::Redirect(mut r)) = f.proceed() {
                let first = r.as_new_flow(ureq_proto::client::flow::RedirectAuthHeaders::Never);
                if !matches!(first, Ok(Some(_))) {
                    let _ = r.as_new_flow(ureq_proto::client::flow::RedirectAuthHeaders::SameHost);
                }
            }
        }
        AnyFlow::Redirect(mut f) => {
            let first = f.as_new_flow(ureq_proto::client::flow::RedirectAuthHeaders::SameHost);
            if !matches!(first, Ok(Some(_))) {
                let _ = f.as_new_flow(ureq_proto::client::flow::RedirectAuthHeaders::Never);
            }
            let _ = f.proceed();
        }
        AnyFlow::SendBody(f) => {
            let _ = f.proceed();
        }
        _ => {}
    });
    if let Err((loc, msg)) = r {
        rec.fail(&format!("C12/{}-when-advancing", panic_sig(&loc, &msg)), format!("advancing after the hostile stream panicked: {} at {}", msg, loc));
    }
}

/// all five close conditions in one exchange, plus the redirect variant with four
fn five_reasons_case(idx: u64, rec: &mut Rec) {
    let mut cfg = ReqCfg::new("POST", "http://h.test/x");
    cfg.ver = Ver::V10;
    cfg.orig.push(("connection".into(), b"close".to_vec()));
    cfg.orig.push(("expect".into(), b"100-continue".to_vec()));
    let status = if idx % 2 == 0 { 403 } else { 302 };
    let mut head = RespHead::new(idx % 4 < 2, status);
    head.fields.push(Field::new("Connection", b"close"));
    head.fields.push(Field::new("Connection", b"close"));
    if status == 302 {
        head.fields.push(Field::new("Location", b"/n"));
    }
    let ex = Exchange { cfg, req_body: b"abc".to_vec(), handshake: Handshake::Refused, interim_reason: "", head, body: BodyPlan::Bare, close_data: b"tail".to_vec(), extra_interim: 0, unsolicited_100: 0 };
    let (stream, truth) = ex.render().unwrap();
    let flow = build_flow(&ex.cfg).unwrap();
    let mut rng = Rng::new(idx);
    let mut d = Driver::new(flow, &ex.cfg, &ex.req_body, &stream, truth.scen, if idx < 4 { Sched::big() } else { Sched::random(&mut rng, true) });
    let end = d.run(rec);
    rec.cov(&format!("five-reasons/{}", truth.close_bits.iter().filter(|b| **b).count()));
    if end != Step::Done {
        return rec.fail("C12/five-close-conditions", format!("{:?}; {}", end, d.summary()));
    }
    if d.must_close() != Some(true) {
        rec.fail("C12/five-close-conditions-verdict", "connection offered for reuse".into());
    }
}

impl Property for P {
    fn id(&self) -> &'static str {
        "C12"
    }
    fn level(&self) -> &'static str {
        "fault_enumeration"
    }
    fn rule(&self) -> String {
        "fault enumeration into every server-facing call (try_read_100, try_response, read in chunked / length / close framing): (i) every byte string over {0 5 a f ; : SP CR LF x 0xff} up to length L, offered whole and as a growing window; (ii) every sequence of up to K protocol tokens (HTTP/1.1, status codes, CRLF, CR, LF, field names, chunked, close, ...); (iii) every byte value at eight positions where httparse and the http crate could disagree and inside chunk framing; (iv) grammar-aware mutations (bit flips, deletions, duplications, splices, oversize numbers, stray CR/LF, >128 fields, 64 KiB names, 100 KB values, conflicting framing fields, malformed Locations, truncation, floods of interim responses / repeated heads / repeated field lines) of valid exchanges of every request configuration under random schedules; (v) all five close conditions at once. Monitors on every call: panic capture, in-crate loop tick budget (bounded restatement of 'hangs'), consumed <= offered, produced <= space, produced bytes an in-order copy of consumed bytes (equality for length/close framing), and state-advancing calls afterwards must not panic. class = call x Ok/Err variant, mutation kind, outcome. deep-input: 300..40000 copies of one unit in a single buffer, each cell in a child process (a child killed by a signal is a violation). redirect-calls: 8 request shapes (two with Expect), the flow handed out is advanced and written. Every other hostile input meets a caller that opted in to truncated redirect heads.".into()
    }
    fn assumptions(&self) -> Vec<String> {
        vec![
            "the caller follows the documented protocol: it re-presents unconsumed bytes, stops calling try_read_100 once can_keep_await_100() is false and does not call try_response again after a final response".into(),
            "'hang' is restated as a logical step budget of 4*(input+output)+64 loop iterations per call".into(),
        ]
    }
    fn workloads(&self, tier: Tier) -> Vec<Workload> {
        let l = tier.pick(5u32, 7u32);
        let k = tier.pick(3u32, 5u32);
        vec![
            Workload::new(if l == 5 { "alphabet-5" } else { "alphabet-7" }, 11u64.pow(l) * 10, true, format!("all strings of length {} over the 11-symbol alphabet x 5 calls x whole/growing", l)),
            Workload::new("alphabet-short", (1..l).map(|n| 11u64.pow(n)).sum::<u64>() * 10, true, "all shorter strings"),
            Workload::new(if k == 3 { "tokens-3" } else { "tokens-5" }, 20u64.pow(k) * 4, true, format!("all sequences of {} tokens x 2 calls x whole/growing", k)),
            Workload::new("tokens-short", (1..k).map(|n| 20u64.pow(n)).sum::<u64>() * 4, true, "all shorter token sequences"),
            Workload::new("byte-sweeps", 10 * 256, true, "every byte value at 10 head positions (incl. the first digit of the status code and codes below 100) and 2 chunk positions"),
            Workload::new("chunk-size-lines", 24 * 8 * 2, true, "chunk size lines of every length 1..=24 x 8 digit patterns x extension"),
            Workload::new("mutations", tier.pick(30_000, 6_000_000), false, "mutated valid exchanges under random schedules"),
            Workload::new("interim-prefixes", 8, true, "eight heads a server sends first (100 Continue in four spellings, with what follows, refusals), every prefix, to try_read_100 and try_response"),
            Workload::new("deep-input", 6 * 4 * 2, true, "300..40000 copies of one small unit (interim responses, empty lines, one-byte chunks, trailer lines) in a single buffer x 2 routes; each cell in a child process, judged by how the child ended"),
            Workload::new("redirect-calls", 480, true, "5 statuses x 8 request shapes (two with Expect) x 6 Locations x 2 policies: every call the Redirect state offers, a declined or failed follow asked again"),
            Workload::new("five-close-conditions", 64, true, "HTTP/1.0 + client close + refused 100 + server close + close-delimited"),
        ]
    }
    fn run_case(&self, wl: &str, idx: u64, seed: u64, rec: &mut Rec) {
        match wl {
            "deep-input" => deep_input_case(idx, rec),
            "interim-prefixes" => interim_prefix_case(idx, rec),
            "deep-input-inner" => deep_input_inner(idx, rec),
            "alphabet-5" => alphabet_case(idx, 5, rec),
            "alphabet-6" => alphabet_case(idx, 6, rec),
            "alphabet-7" => alphabet_case(idx, 7, rec),
            "alphabet-short" => {
                let mut i = idx;
                for n in 1..7u32 {
                    let sz = 11u64.pow(n) * 10;
                    if i < sz {
                        return alphabet_case(i, n, rec);
                    }
                    i -= sz;
                }
            }
            "tokens-3" => token_case(idx, 3, rec),
            "tokens-4" => token_case(idx, 4, rec),
            "tokens-5" => token_case(idx, 5, rec),
            "tokens-short" => {
                let mut i = idx;
                for n in 1..5u32 {
                    let sz = 20u64.pow(n) * 4;
                    if i < sz {
                        return token_case(i, n, rec);
                    }
                    i -= sz;
                }
            }
            "byte-sweeps" => sweep_case(idx, rec),
            "redirect-calls" => redirect_calls_case(idx, rec),
            "chunk-size-lines" => size_line_case(idx, rec),
            "mutations" => {
                let mut rng = Rng::derive(seed, wl, idx);
                mutation_case(&mut rng, rec)
            }
            _ => five_reasons_case(idx, rec),
        }
    }
    fn floors(&self, _tier: Tier) -> Vec<(String, u64)> {
        let mut v: Vec<(String, u64)> = vec![];
        for t in ["Await100", "Response", "Chunked", "Length5", "Close"] {
            v.push((format!("{}/Ok/*", t), 100));
        }
        for t in ["Await100", "Response", "Chunked"] {
            v.push((format!("{}/Err/*", t), 100));
        }
        for u in ["100-continue", "102-processing", "103-early-hints", "empty-lines", "tiny-chunks", "trailer-lines"] {
            v.push((format!("deep-input/{}/returned", u), 8));
        }
        v.push(("redirect-calls/request-with-expect".to_string(), 50));
        v.push(("interim-prefixes".to_string(), 8));
        for m in ["field-value-games", "flood-interim", "flood-head", "flood-field", "bit-flip", "deletion", "duplication", "splice", "oversize-number", "stray-crlf", "many-fields", "truncation", "huge-name", "huge-value", "chunk-line-games", "conflicting-fields"] {
            v.push((format!("mutation/{}", m), 100));
        }
        v.push(("outcome/completed".into(), 100));
        v.push(("outcome/error/*".into(), 100));
        v.push(("five-reasons/5".into(), 8));
        v.push(("size-line/len17..20".into(), 50));
        v
    }
}
