//! C15 — redirect method rewriting follows the documented table.
use crate::core::{Property, Rec, Tier, Workload};
use crate::drive::*;
use crate::wire::redirect_method;
use ureq_proto::client::flow::RedirectAuthHeaders;

pub struct P;

fn cell(idx: u64, rec: &mut Rec) {
    let mut x = idx as usize;
    let mut take = |n: usize| {
        let v = x % n;
        x /= n;
        v
    };
    let method = METHODS[take(9)];
    let status = 300 + take(100) as u16;
    let policy = [RedirectAuthHeaders::Never, RedirectAuthHeaders::SameHost][take(2)];
    let body_kind = take(3); // 0 none, 1 content-length, 2 chunked
    let v10 = take(2) == 1;
    // 0: plain; 1: Expect: 100-continue answered at once by this 3xx (body methods); 2: no Location field;
    // 3: an unsolicited 100 Continue in front of the 3xx; 4: a request loaded with everything a redirect
    // strips or keeps (explicit Host, cookie, its own framing header) redirected to another authority;
    // 5: the Location is the very URI that was just requested (a cookie bounce): the table applies all the same
    // 6: an interim 103 with fields, seen in two looks, comes first and nothing follows the 3xx message in the window;
    // 7: the chunked body of the 3xx is written with blanks in front of its chunk extensions
    // 8, 9: an https request sent on to plain http, on the same host and on another one: the table knows
    // statuses and methods, not schemes
    let variant = take(10);
    if v10 && !http10_method(method) {
        return;
    }
    if variant == 1 && !needs_body(method) {
        return;
    }
    let mut cfg = ReqCfg::new(method, if variant >= 8 { "https://a.test/start/here?x=1" } else { "http://a.test/start/here?x=1" });
    if v10 {
        cfg.ver = Ver::V10;
    }
    cfg.orig.push(("authorization".into(), b"secret".to_vec()));
    if variant == 1 {
        cfg.orig.push(("expect".into(), b"100-continue".to_vec()));
    }
    if variant == 4 {
        cfg.orig.push(("host".into(), b"a.test".to_vec()));
        cfg.orig.push(("cookie".into(), b"k=v".to_vec()));
        if status % 2 == 0 {
            cfg.orig.push(("transfer-encoding".into(), b"chunked".to_vec()));
        } else {
            cfg.orig.push(("content-length".into(), b"3".to_vec()));
        }
        cfg.despite = !needs_body(method);
        rec.cov("loaded-request-to-another-authority");
    }
    let mut stream = if variant == 2 {
        format!("HTTP/1.1 {} Moved\r\nX-No: location\r\n", status).into_bytes()
    } else if variant == 4 {
        format!("HTTP/1.1 {} Moved\r\nLocation: https://b.test/next/place\r\n", status).into_bytes()
    } else if variant >= 8 {
        rec.cov("https-sent-on-to-http");
        format!("HTTP/1.1 {} Moved\r\nLocation: http://{}.test/next/place\r\n", status, if variant == 8 { "a" } else { "b" }).into_bytes()
    } else if variant == 5 {
        rec.cov("redirect-to-the-same-uri");
        format!("HTTP/1.1 {} Moved\r\nLocation: {}\r\n", status, if status % 2 == 0 { "http://a.test/start/here?x=1" } else { "/start/here?x=1" }).into_bytes()
    } else {
        format!("HTTP/1.1 {} Moved\r\nLocation: /next/place\r\n", status).into_bytes()
    };
    let f = if variant == 1 {
        // the server answers the Expect request with this very response: straight to RecvResponse
        use ureq_proto::client::flow::{Await100Result, SendRequestResult};
        let r = (|| -> Result<_, String> {
            let mut s = build_flow(&cfg).map_err(|e| format!("{:?}", e))?.proceed();
            write_head_big(&mut s).map_err(|e| format!("{:?}", e))?;
            let mut a = match s.proceed().map_err(|e| format!("{:?}", e))? {
                Some(SendRequestResult::Await100(a)) => a,
                _ => return Err("expected Await100".into()),
            };
            let n = a.try_read_100(&stream).map_err(|e| format!("{:?}", e))?;
            if n != 0 || a.can_keep_await_100() {
                return Err(format!("refusal not recognised: consumed {} keep {}", n, a.can_keep_await_100()));
            }
            match a.proceed().map_err(|e| format!("{:?}", e))? {
                Await100Result::RecvResponse(r) => Ok(r),
                _ => Err("refused request went on to send its body".into()),
            }
        })();
        match r {
            Ok(f) => f,
            Err(e) => return rec.fail("C15/setup-expect", format!("{}: {}", cfg.describe(), e)),
        }
    } else {
        match fast_to_recv(&cfg) {
            Ok(f) => f,
            Err(e) => return rec.fail("C15/setup", format!("{}: {}", cfg.describe(), e)),
        }
    };
    let chunked_body: &[u8] = if variant == 7 { b"3 ;ext=1\r\nabc\r\n0\t;last\r\n\r\n" } else { b"3\r\nabc\r\n0\r\n\r\n" };
    match body_kind {
        1 => stream.extend_from_slice(b"Content-Length: 3\r\n\r\nabc"),
        2 => {
            stream.extend_from_slice(b"Transfer-Encoding: chunked\r\n\r\n");
            stream.extend_from_slice(chunked_body);
            if variant == 7 {
                rec.cov("chunked-3xx-body-with-blanks-before-extensions");
            }
        }
        _ => stream.extend_from_slice(b"\r\n"),
    }
    let mut f = f;
    if variant == 6 {
        let interim = b"HTTP/1.1 103 Early Hints\r\nLink: </style/site.css>; rel=preload; as=style\r\nLink: </script/app.js>; rel=preload; as=script\r\n\r\n";
        rec.cov("after-an-interim-103-seen-in-two-looks");
        match f.try_response(&interim[..100]) {
            Ok((0, None)) => {}
            other => return rec.fail("C15/setup", format!("first 100 bytes of the interim response: {:?}", other.map(|v| (v.0, v.1.is_some())))),
        }
        match f.try_response(interim) {
            Ok((n, Some(_))) if n == interim.len() => {}
            other => return rec.fail("C15/setup", format!("the interim response: {:?}", other.map(|v| (v.0, v.1.is_some())))),
        }
    }
    if variant == 3 {
        stream.splice(0..0, b"HTTP/1.1 100 Continue\r\n\r\n".iter().copied());
        rec.cov("after-unsolicited-100");
    }
    let total = stream.len();
    let tail_len = if variant == 6 { 0 } else { 19 };
    if variant != 6 {
        stream.extend_from_slice(b"HTTP/1.1 200 OK\r\n\r\n");
    }
    rec.call();
    let (end, obs, consumed, _body) = match fast_response(f, &stream) {
        Ok(v) => v,
        Err(e) => return rec.fail("C15/exchange-failed", format!("{} status {}: {}", method, status, e)),
    };
    if obs.status != status {
        return rec.fail("C15/status-misreported", format!("sent {}, response object says {}", status, obs.status));
    }
    let want_redirect = status != 304;
    let mut r = match end {
        End::Redirect(r) => {
            if !want_redirect {
                return rec.fail("C15/304-entered-redirect", format!("{} {}: redirect state entered for 304", method, status));
            }
            r
        }
        End::Cleanup(_) => {
            if want_redirect {
                return rec.fail(
                    "C15/3xx-skipped-redirect",
                    format!("{} {} (body kind {}): cleanup state reached, redirect state expected", method, status, body_kind),
                );
            }
            rec.cov("304/cleanup");
            return;
        }
    };
    // HEAD never has a body, whatever the header says
    let expect_consumed = if method == "HEAD" { stream.len() - tail_len - if body_kind == 1 { 3 } else if body_kind == 2 { chunked_body.len() } else { 0 } } else { total };
    if consumed != expect_consumed {
        return rec.fail("C15/consumed", format!("{} {}: consumed {} expected {}", method, status, consumed, expect_consumed));
    }
    rec.call();
    if r.status().as_u16() != status {
        return rec.fail("C15/redirect-status", format!("{} {}: Redirect.status() = {}", method, status, r.status().as_u16()));
    }
    rec.call();
    let nf = r.as_new_flow(policy);
    if variant == 2 {
        rec.cov("no-location/redirect-state-entered");
        return match nf {
            Err(_) => {}
            Ok(v) => rec.fail("C15/missing-location-not-an-error", format!("{} {}: as_new_flow without a Location -> Ok({:?})", method, status, v.map(|f| f.method().to_string()))),
        };
    }
    if variant == 1 {
        rec.cov("expect-refused-by-3xx");
    }
    let want = redirect_method(method, status);
    rec.ev(|| format!("{} {} policy={:?} body={} v10={} -> as_new_flow = {:?}, table says {:?}", method, status, policy, body_kind, v10, nf.as_ref().map(|o| o.as_ref().map(|f| f.method().to_string())), want));
    let kind = if status == 307 || status == 308 { "retain" } else { "other-3xx" };
    rec.cov(&format!("{}/{}/{}", kind, method, match want { None => "not-followed", Some(m) if m == method => "kept", _ => "to-GET" }));
    match (nf, want) {
        (Err(e), _) => rec.fail("C15/error", format!("{} {}: as_new_flow -> Err({:?})", method, status, e)),
        (Ok(None), None) => {
            // asked again (with the other policy): the table has not changed
            let other = if policy == RedirectAuthHeaders::Never { RedirectAuthHeaders::SameHost } else { RedirectAuthHeaders::Never };
            rec.call();
            match r.as_new_flow(other) {
                Ok(None) => rec.cov("not-followed/asked-twice"),
                again => rec.fail("C15/not-followed-answer-changed", format!("{} {}: not followed, asked again: {:?}", method, status, again.map(|o| o.map(|f| f.method().to_string())))),
            }
        }
        (Ok(None), Some(w)) => rec.fail("C15/not-followed", format!("{} {}: not followed, table says follow with {}", method, status, w)),
        (Ok(Some(f)), None) => rec.fail("C15/followed-despite-table", format!("{} {}: followed with {}, table says do not follow", method, status, f.method())),
        (Ok(Some(f)), Some(w)) => {
            if f.method().as_str() != w {
                return rec.fail("C15/wrong-method", format!("{} {}: new flow uses {}, table says {}", method, status, f.method(), w));
            }
            // the table applies at every hop: send the new request and redirect it once more
            if variant == 0 && body_kind == 0 {
                use super::heads::*;
                let status2 = [301u16, 302, 303, 307, 308, 399][(idx as usize / 7) % 6];
                let original = crate::wire::split_uri(&cfg.uri);
                let eff1 = Eff { method: w, uri: crate::wire::split_uri("http://a.test/next/place"), inherited: vec![], depth: 1, auth_kept: false };
                let hop2 = Hop { status: status2, locations: vec![b"/third".to_vec()], with_body: false };
                rec.call();
                let want2 = redirect_method(w, status2);
                match follow_one(f, &cfg, &eff1, &original, &hop2, policy) {
                    Ok(Followed::Next(f3, _)) => {
                        rec.cov("second-hop/followed");
                        if Some(f3.method().as_str()) != want2 {
                            rec.fail(
                                "C15/wrong-method",
                                format!("{} -{}-> {} -{}-> {}: the table says {:?} at the second hop", method, status, w, status2, f3.method(), want2),
                            );
                        }
                    }
                    Ok(Followed::NotFollowed) => {
                        rec.cov("second-hop/not-followed");
                        if let Some(w2) = want2 {
                            rec.fail("C15/not-followed", format!("{} -{}-> {} -{}-> not followed, table says {}", method, status, w, status2, w2));
                        }
                    }
                    Ok(Followed::Error(e)) => rec.fail("C15/error", format!("second hop: {}", e)),
                    Err(e) => rec.fail("C15/exchange-failed", format!("second hop: {}", e)),
                }
            }
        }
    }
}

impl Property for P {
    fn id(&self) -> &'static str {
        "C15"
    }
    fn rule(&self) -> String {
        "exhaustive table: 9 methods x status 300..=399 x 2 auth policies x response body {none, Content-Length, chunked} x request version {1.1, 1.0 where the method exists} x {plain, Expect: 100-continue refused by this very 3xx, no Location field, an unsolicited 100 Continue first, a request loaded with explicit Host + cookie + its own framing header redirected to another authority, a Location that is the very URI just requested}. Each cell runs a real exchange to the end and compares: redirect state entered <=> 3xx and not 304, Redirect.status() == status, as_new_flow outcome and new method == the table of the statement. class = (307/308 | other 3xx) x method x outcome. Four more variants: an https request sent on to plain http (same host, other host); an interim 103 seen in two looks with nothing behind the 3xx message; blanks before the chunk extensions of the 3xx body.".into()
    }
    fn assumptions(&self) -> Vec<String> {
        vec!["the table is restated from the property text in wire::redirect_method".into()]
    }
    fn workloads(&self, _tier: Tier) -> Vec<Workload> {
        vec![Workload::new("table", 9 * 100 * 2 * 3 * 2 * 10, true, "full product; HTTP/1.0 cells for methods that do not exist in 1.0 are skipped")]
    }
    fn run_case(&self, _wl: &str, idx: u64, _seed: u64, rec: &mut Rec) {
        cell(idx, rec)
    }
    fn floors(&self, _tier: Tier) -> Vec<(String, u64)> {
        vec![
            ("retain/*".into(), 100),
            ("other-3xx/POST/to-GET".into(), 500),
            ("other-3xx/HEAD/kept".into(), 500),
            ("other-3xx/DELETE/to-GET".into(), 300),
            ("retain/DELETE/not-followed".into(), 10),
            ("retain/GET/kept".into(), 10),
            ("304/cleanup".into(), 50),
            ("no-location/redirect-state-entered".into(), 500),
            ("expect-refused-by-3xx".into(), 500),
            ("after-unsolicited-100".into(), 500),
            ("second-hop/followed".into(), 500),
            ("after-an-interim-103-seen-in-two-looks".into(), 500),
            ("chunked-3xx-body-with-blanks-before-extensions".into(), 500),
            ("https-sent-on-to-http".into(), 1000),
        ]
    }
}
