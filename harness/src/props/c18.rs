//! C18 — the advertised maximum input always fits the output buffer.
use crate::core::{Property, Rec, Tier, Workload};
use crate::drive::{body_sender, BodySender};
use crate::rng::Rng;
use crate::wire::decode_chunked_strict;

pub struct P;

const RANGE: u64 = 3 * 10248 + 64 + 1;

fn max_input(s: &mut BodySender, n: usize) -> usize {
    match s {
        BodySender::Flow(f) => f.calculate_max_input(n),
        _ => unreachable!(),
    }
}

fn http10_chunked_sender() -> Result<BodySender, String> {
    use ureq_proto::client::flow::{Flow, SendRequestResult};
    use ureq_proto::http::{Request, Version};
    let req = Request::builder().method("POST").uri("http://h.test/up").version(Version::HTTP_10).body(()).unwrap();
    let mut f = Flow::new(req).map_err(|e| format!("{:?}", e))?.proceed();
    let mut buf = [0u8; 256];
    f.write(&mut buf).map_err(|e| format!("{:?}", e))?;
    match f.proceed().map_err(|e| format!("{:?}", e))? {
        Some(SendRequestResult::SendBody(s)) => Ok(BodySender::Flow(s)),
        _ => Err("expected SendBody".into()),
    }
}

fn check_n(n: usize, rec: &mut Rec) {
    // chunked; every third n through an HTTP/1.0 request (the default framing is chunked there too)
    let http10 = n % 3 == 1;
    // every fifth n: the caller names the coding itself, in either spelling
    let explicit = !http10 && n % 5 == 2;
    let made = if http10 {
        http10_chunked_sender()
    } else if explicit {
        rec.cov("chunked/caller-named-coding");
        crate::drive::body_sender_ex(None, true, false, if n % 2 == 0 { 128 } else { 0 })
    } else if n % 15 == 5 {
        // the head was written once more after it was complete
        rec.cov("chunked/after-an-extra-head-write");
        crate::drive::body_sender_ex(None, false, false, 256)
    } else if n % 15 == 8 {
        // escape hatch on a request whose only transfer-encoding is not a framing header
        rec.cov("chunked/despite-method-with-gzip");
        crate::drive::body_sender_ex(None, false, false, 2 | 1024 | (((n / 15) % 4) as u32) << 5)
    } else if n % 15 == 3 || n % 15 == 6 {
        // the body is sent after an Expect handshake (the caller gave up waiting / the 100 came)
        rec.cov("chunked/after-expect-handshake");
        crate::drive::body_sender_ex(None, false, false, if n % 15 == 3 { 8 } else { 16 })
    } else if n % 15 == 9 {
        // Host spelled out, then a content-length, another field, and only then the chunked coding
        rec.cov("chunked/coding-named-behind-length-and-other-fields");
        crate::drive::body_sender_ex(None, true, false, 1 | 4 | 65536)
    } else if n % 15 == 14 {
        // the head went out one line per write, the empty line alone in a write of its own
        rec.cov("chunked/head-line-by-line");
        crate::drive::body_sender_ex(None, false, false, 8192)
    } else if n % 15 == 11 {
        // escape hatch on a flow produced by a redirect whose original was chunked
        rec.cov("chunked/redirected-flow");
        crate::drive::body_sender_ex(None, false, false, 2048)
    } else {
        body_sender(None, false, false)
    };
    let mut s = match made {
        Ok(s) => s,
        Err(e) => return rec.fail("C18/setup", e),
    };
    if http10 {
        rec.cov("chunked/http10-request");
    }
    rec.call();
    let m = max_input(&mut s, n);
    let m_next = max_input(&mut s, n + 1);
    rec.ev(|| format!("chunked: calculate_max_input({}) = {}, ({}) = {}", n, m, n + 1, m_next));
    if m > n {
        return rec.fail("C18/max-exceeds-buffer", format!("calculate_max_input({}) = {} > n", n, m));
    }
    if m_next < m {
        return rec.fail("C18/not-monotone", format!("calculate_max_input({}) = {} but ({}) = {}", n, m, n + 1, m_next));
    }
    let digits = format!("{:x}", n.max(1)).len();
    rec.cov(&format!("chunked/hexdigits-of-n={}/{}", digits, if m == 0 { "max=0" } else if n % 10248 < 16 { "near-chunk-multiple" } else { "mid" }));
    if m > 0 {
        let input = crate::wire::payload(m, (n % 200) as u8);
        let mut buf = vec![0u8; n];
        rec.call();
        let r = s.write(&input, &mut buf);
        rec.ev(|| format!("chunked: write(in={}, out={}) -> {:?}", m, n, r));
        match r {
            Ok((c, p)) => {
                if c != m {
                    return rec.fail(
                        "C18/advertised-max-not-consumed",
                        format!("calculate_max_input({}) = {} but write(in={}, out={}) consumed only {} (produced {})", n, m, m, n, c, p),
                    );
                }
                if p > n {
                    return rec.fail("C18/overrun", format!("produced {} into {} byte buffer", p, n));
                }
                match decode_chunked_strict(&buf[..p]) {
                    Ok(d) if d.data == input && !d.terminated => {}
                    Ok(d) => return rec.fail("C18/wire-differs", format!("n={}: wire decodes to {} bytes terminated={}", n, d.data.len(), d.terminated)),
                    Err(e) => return rec.fail("C18/wire-invalid", format!("n={}: {}", n, e)),
                }
            }
            Err(e) => return rec.fail("C18/write-error", format!("write(in={}, out={}) -> Err({:?})", m, n, e)),
        }
    }
    // length delimited: max is n itself and n bytes go through in one write
    // (the sender in turn: plain, with the Host spelled out by the caller, with the head written line by line, both)
    let lv = [0u32, 1, 8192, 1 | 8192][n % 4];
    rec.cov(["length/sender-plain", "length/sender-own-host", "length/sender-head-line-by-line", "length/sender-own-host-line-by-line"][n % 4]);
    let mut s = match crate::drive::body_sender_ex(Some(n as u64 + 7), false, false, lv) {
        Ok(s) => s,
        Err(e) => return rec.fail("C18/setup", e),
    };
    rec.call();
    let m = max_input(&mut s, n);
    if m != n {
        return rec.fail("C18/length-max-not-n", format!("length-delimited calculate_max_input({}) = {}", n, m));
    }
    let input = crate::wire::payload(n, 3);
    let mut buf = vec![0u8; n];
    rec.call();
    match s.write(&input, &mut buf) {
        Ok((c, p)) if c == n && p == n && buf == input => {
            rec.cov(if n == 0 { "length/n=0" } else { "length/n>0" });
        }
        other => return rec.fail("C18/length-write", format!("length-delimited write(in={}, out={}) -> {:?}", n, n, other)),
    }
    // the advertised size is the buffer's, however much of the declared length is still to come: seven
    // bytes are left on this flow now, and buffers below, at and above that are asked about
    for k in [1usize, 6, 7, 8, n.max(9), 65536] {
        rec.call();
        let m = max_input(&mut s, k);
        if m != k {
            return rec.fail("C18/length-max-not-n", format!("length-delimited, 7 bytes of {} left: calculate_max_input({}) = {}", n + 7, k, m));
        }
    }
    rec.cov("length/asked-late-in-the-body");
}

/// One flow, many buffer sizes in a row: what was advertised for the buffer at hand must fit whatever
/// happened on this flow before - including the empty writes that a zero maximum amounts to.
fn one_flow_many_n(rng: &mut Rng, rec: &mut Rec) {
    let mut s = match body_sender(None, false, false) {
        Ok(s) => s,
        Err(e) => return rec.fail("C18/setup", e),
    };
    let steps = rng.usize_in(2, 30);
    for step in 0..steps {
        let n = match rng.below(4) {
            0 => rng.usize_in(0, 4),
            1 => rng.usize_in(5, 12),
            2 => *rng.pick(&[21usize, 22, 261, 262, 4102, 4103, 10247, 10248, 10249, 20496]),
            _ => rng.usize_in(6, 30_000),
        };
        rec.call();
        let m = max_input(&mut s, n);
        if m > n {
            return rec.fail("C18/max-exceeds-buffer", format!("calculate_max_input({}) = {} > n", n, m));
        }
        let mut buf = vec![0u8; n];
        if m == 0 {
            if n < 5 {
                // an empty write that cannot even carry the end marker: nothing happens, the body goes on
                rec.call();
                let r = s.write(&[], &mut buf);
                rec.ev(|| format!("step {}: empty write into {} bytes -> {:?}", step, n, r));
                rec.cov("one-flow/empty-write-without-room");
                if s.finished() {
                    return rec.fail("C18/finished-without-room", format!("an empty write into {} bytes finished the body", n));
                }
            } else {
                // 5..8 bytes: nothing is advertised, but a caller may still offer a byte or two; whatever
                // happens to them, offering data is not the end of the body
                rec.call();
                let r = s.write(b"zz", &mut buf);
                rec.ev(|| format!("step {}: write(in=2, out={}) where nothing is advertised -> {:?}", step, n, r));
                rec.cov("one-flow/data-write-where-nothing-is-advertised");
                if s.finished() {
                    return rec.fail("C18/data-write-finished-the-body", format!("a write of 2 bytes into {} bytes finished the body", n));
                }
            }
            continue;
        }
        let input = crate::wire::payload(m, (step % 200) as u8);
        rec.call();
        let r = s.write(&input, &mut buf);
        rec.ev(|| format!("step {}: calculate_max_input({}) = {}; write -> {:?}", step, n, m, r));
        match r {
            Ok((c, p)) => {
                if c != m {
                    return rec.fail(
                        "C18/advertised-max-not-consumed",
                        format!("step {} on the same flow: calculate_max_input({}) = {} but write(in={}, out={}) consumed only {} (produced {})", step, n, m, m, n, c, p),
                    );
                }
                match decode_chunked_strict(&buf[..p.min(n)]) {
                    Ok(d) if d.data == input && !d.terminated => rec.cov("one-flow/advertised-write"),
                    Ok(d) => return rec.fail("C18/wire-differs", format!("n={}: wire decodes to {} bytes terminated={}", n, d.data.len(), d.terminated)),
                    Err(e) => return rec.fail("C18/wire-invalid", format!("n={}: {}", n, e)),
                }
            }
            Err(e) => return rec.fail("C18/write-error", format!("step {}: write(in={}, out={}) -> Err({:?})", step, m, n, e)),
        }
    }
}

impl Property for P {
    fn id(&self) -> &'static str {
        "C18"
    }
    fn rule(&self) -> String {
        "for every buffer length n: m = calculate_max_input(n) must satisfy m <= n, m(n+1) >= m(n), and a real write of m bytes into an n-byte buffer must consume all m (wire strictly decoded and compared); length-delimited: m == n and n bytes pass in one write. n enumerated over 0..=3*10248+64, random n up to 2^22 in the thorough tier. Every fifth n the caller names the coding itself (chunked / Chunked). one-flow-many-n: 2..30 advertised-size writes in a row on ONE flow with tiny buffers (whose zero maximum amounts to an empty write without room) mixed in. class = hex digit count of n x position relative to the chunk size.".into()
    }
    fn assumptions(&self) -> Vec<String> {
        vec!["m == 0 is vacuous for the write (an empty write is the finishing write), only the bound/monotonicity are checked there".into()]
    }
    fn workloads(&self, tier: Tier) -> Vec<Workload> {
        let mut v = vec![Workload::new("every-n", RANGE, true, "every n in 0..=3*10248+64")];
        v.push(Workload::new("one-flow-many-n", tier.pick(3_000, 300_000), false, "2..30 advertised-size writes in a row on one flow, tiny and boundary buffers mixed in"));
        if tier == Tier::Thorough {
            v.push(Workload::new("random-n", 400_000, false, "random n up to 2^22, biased to multiples of 10248 +-16"));
        } else {
            v.push(Workload::new("random-n", 4_000, false, "random n up to 2^22, biased to multiples of 10248 +-16"));
        }
        v
    }
    fn run_case(&self, wl: &str, idx: u64, seed: u64, rec: &mut Rec) {
        if wl == "every-n" {
            check_n(idx as usize, rec)
        } else if wl == "one-flow-many-n" {
            let mut rng = Rng::derive(seed, "C18-one-flow", idx);
            one_flow_many_n(&mut rng, rec)
        } else {
            let mut rng = Rng::derive(seed, "C18", idx);
            let n = if rng.chance(1, 2) {
                (rng.usize_in(1, 400) * 10248 + rng.usize_in(0, 32)).saturating_sub(16)
            } else {
                rng.usize_in(0, 1 << 22)
            };
            check_n(n, rec)
        }
    }
    fn floors(&self, _tier: Tier) -> Vec<(String, u64)> {
        vec![
            ("chunked/hexdigits-of-n=1*".into(), 10),
            ("chunked/hexdigits-of-n=2*".into(), 100),
            ("chunked/hexdigits-of-n=3*".into(), 1000),
            ("chunked/hexdigits-of-n=4*".into(), 10000),
            ("length/n>0".into(), 10000),
            ("length/asked-late-in-the-body".into(), 10000),
            ("chunked/http10-request".into(), 5000),
            ("chunked/caller-named-coding".into(), 3000),
            ("chunked/after-an-extra-head-write".into(), 1500),
            ("chunked/despite-method-with-gzip".into(), 1500),
            ("chunked/redirected-flow".into(), 1500),
            ("one-flow/empty-write-without-room".into(), 500),
            ("one-flow/advertised-write".into(), 5000),
        ]
    }
}
