//! C07 — chunked response decoding yields exactly the payload and never over-reads.
use crate::core::{Property, Rec, Tier, Workload};
use crate::drive::*;
use crate::hookmon;
use crate::json::esc_short;
use crate::rng::Rng;
use crate::wire::*;
use ureq_proto::client::flow::state::RecvBody;
use ureq_proto::client::flow::RecvResponseResult;

pub struct P;

pub const NEXT: &[u8] = b"HTTP/1.1 200 OK\r\nContent-Length: 0\r\n\r\n";

pub fn chunked_body_flow() -> F<RecvBody> {
    chunked_body_flow_for(0).expect("a chunked 200 leads to RecvBody")
}

/// A chunked coding frames the body of any response that has one, not just a 200.
pub const CHUNKED_STATUSES: [(&str, u16, &str); 8] = [
    ("GET", 200, ""),
    ("POST", 201, ""),
    ("GET", 205, ""),
    ("GET", 206, ""),
    ("DELETE", 404, ""),
    ("PUT", 500, ""),
    ("GET", 301, "Location: /next\r\n"),
    ("OPTIONS", 399, ""),
];

pub fn chunked_body_flow_for(which: usize) -> Result<F<RecvBody>, String> {
    let (method, status, extra) = CHUNKED_STATUSES[which % CHUNKED_STATUSES.len()];
    // one flow in five was requested with HTTP/1.0: how the body of an HTTP/1.1 response is framed is the
    // response's business alone
    let mut f = if which % 5 == 3 && matches!(method, "GET" | "POST") {
        let mut cfg = ReqCfg::new(method, "http://h.test/");
        cfg.ver = Ver::V10;
        fast_to_recv(&cfg)?
    } else {
        super::c05::recv_flow(method)
    };
    // the coding is announced in several legal spellings
    // (the last one: the list spread over two field lines)
    let te = ["chunked", "Chunked", "gzip, chunked", "chunked,", "chunked", " chunked\t", "gzip\r\nTransfer-Encoding: chunked", "gzip,\tchunked", "chunked\t, "][which / CHUNKED_STATUSES.len() % 9];
    if which % 6 == 4 {
        // an interim response (102, 103) comes first on one flow in six: the response that counts, and whose
        // coding is decoded, is the one after it
        let interim: &[u8] = if which % 12 == 4 { b"HTTP/1.1 103 Early Hints\r\nLink: </s.css>; rel=preload\r\n\r\n" } else { b"HTTP/1.1 102 Processing\r\n\r\n" };
        let (n, r) = f.try_response(interim).map_err(|e| format!("interim response: {:?}", e))?;
        if n != interim.len() || r.is_none() {
            return Err("interim head not accepted".into());
        }
    }
    // (one head in four also carries a Content-Length: on an HTTP/1.1 response the chunked coding wins, on whichever
    // Transfer-Encoding line it stands)
    let cl = if which % 4 == 1 { "Content-Length: 3\r\n" } else { "" };
    let head = format!("HTTP/1.1 {} X\r\n{}{}Transfer-Encoding: {}\r\n\r\n", status, extra, cl, te);
    let (n, r) = f.try_response(head.as_bytes()).map_err(|e| format!("{:?}", e))?;
    if n != head.len() || r.is_none() {
        return Err(format!("the head of the chunked response was not accepted (consumed {} of {}, response {})", n, head.len(), r.is_some()));
    }
    match f.proceed() {
        Some(RecvResponseResult::RecvBody(b)) => Ok(b),
        Some(_) => Err(format!("a {} response to {} with Transfer-Encoding: chunked did not enter the body state", status, method)),
        None => Err("cannot proceed after the head".into()),
    }
}

/// The decoder is reached through the flow or through the single-call API (`Call::<RecvBody>::read`): the checks
/// are the same, so the reader is one of the two behind the same four calls.
pub enum ChunkReader {
    Flow(F<RecvBody>),
    Call(ureq_proto::client::call::Call<ureq_proto::client::call::state::RecvBody, ()>),
}

impl ChunkReader {
    pub fn read(&mut self, input: &[u8], output: &mut [u8]) -> Result<(usize, usize), ureq_proto::Error> {
        match self {
            ChunkReader::Flow(f) => f.read(input, output),
            ChunkReader::Call(c) => c.read(input, output),
        }
    }
    pub fn can_proceed(&self) -> bool {
        match self {
            ChunkReader::Flow(f) => f.can_proceed(),
            ChunkReader::Call(c) => c.is_ended(),
        }
    }
    pub fn is_on_chunk_boundary(&self) -> bool {
        match self {
            ChunkReader::Flow(f) => f.is_on_chunk_boundary(),
            ChunkReader::Call(c) => c.is_on_chunk_boundary(),
        }
    }
    pub fn stop_on_chunk_boundary(&mut self, on: bool) {
        match self {
            ChunkReader::Flow(f) => f.stop_on_chunk_boundary(on),
            ChunkReader::Call(c) => c.stop_on_chunk_boundary(on),
        }
    }
}

/// A single call (GET, head written) that received a chunked 200 and moved on to its body.
pub fn chunked_body_call(which: usize) -> Result<ChunkReader, String> {
    use ureq_proto::client::call::Call;
    let req = ureq_proto::http::Request::builder().method(if which % 2 == 0 { "GET" } else { "DELETE" }).uri("http://h.test/").body(()).unwrap();
    let mut c = Call::without_body(req).map_err(|e| format!("{:?}", e))?;
    let mut b = [0u8; 256];
    c.write(&mut b).map_err(|e| format!("{:?}", e))?;
    let mut c = c.into_receive().map_err(|e| format!("{:?}", e))?;
    let te = ["chunked", "Chunked", "gzip, chunked", "gzip\r\nTransfer-Encoding: chunked"][which / 2 % 4];
    let head = format!("HTTP/1.1 {} X\r\nTransfer-Encoding: {}\r\n\r\n", [200, 201, 404][which % 3], te);
    match c.try_response(head.as_bytes()) {
        Ok(Some((n, _))) if n == head.len() => {}
        other => return Err(format!("single-call API: head not accepted: {:?}", other.map(|o| o.map(|v| v.0)))),
    }
    match c.into_body() {
        Ok(Some(b)) => Ok(ChunkReader::Call(b)),
        other => Err(format!("single-call API: a chunked response did not give a body state: {:?}", other.map(|o| o.is_some()))),
    }
}

#[derive(Clone, Copy, Debug)]
pub enum OutPat {
    /// 0,1,2,3,4,0,1,...
    Cycle04,
    /// buffers of this size while payload is outstanding, zero-length buffers afterwards: the
    /// caller's buffer is exactly full, yet the framing behind the payload still has to be consumed
    ZeroAfterPayload(usize),
    One,
    Large,
    Fixed(usize),
}

impl OutPat {
    fn size(&self, i: usize) -> usize {
        match self {
            OutPat::Cycle04 => i % 5,
            OutPat::ZeroAfterPayload(n) => *n,
            OutPat::One => 1,
            OutPat::Large => 1 << 16,
            OutPat::Fixed(n) => *n,
        }
    }
    fn name(&self) -> &'static str {
        match self {
            OutPat::Cycle04 => "out=0..4",
            OutPat::ZeroAfterPayload(_) => "out=0-after-payload",
            OutPat::One => "out=1",
            OutPat::Large => "out=large",
            OutPat::Fixed(_) => "out=fixed",
        }
    }
}

/// Deliver `coded` (followed by NEXT) cut at `cuts` (ascending offsets into the coding where an
/// arrival ends) and check everything C07 states. Returns false on violation.
/// What follows the coding on the connection: the next response, possibly preceded by a stray CRLF
/// (which a robust server-side framing may produce), something that looks like another last-chunk,
/// or a lone CRLF. None of it may be touched.
pub const TAILS: [&[u8]; 5] = [NEXT, b"\r\nHTTP/1.1 204 X\r\n\r\n", b"0\r\n\r\nHTTP/1.1 200 OK\r\n\r\n", b"\r\n", b""];

pub fn run_coding(coded: &Coded, cuts: &[usize], pat: OutPat, stop: bool, rec: &mut Rec) -> bool {
    run_coding_toggle(coded, cuts, pat, stop, 0, rec)
}

/// `toggle_every` > 0: the boundary-stop switch is flipped every that many reads (each read is
/// judged with the setting in force when it was made).
pub fn run_coding_toggle(coded: &Coded, cuts: &[usize], pat: OutPat, stop: bool, toggle_every: usize, rec: &mut Rec) -> bool {
    let mut stop = stop;
    let tail = TAILS[(coded.bytes.len() + cuts.len() + cuts.first().copied().unwrap_or(0)) % 5];
    let mut stream = coded.bytes.clone();
    stream.extend_from_slice(tail);
    let clen = coded.bytes.len();
    let which = clen + cuts.len();
    // one run in five reads through the single-call API
    let made = if which % 5 == 2 {
        rec.cov("reader/single-call-api");
        chunked_body_call(which)
    } else {
        chunked_body_flow_for(which).map(ChunkReader::Flow)
    };
    let mut f = match made {
        Ok(f) => f,
        Err(e) => {
            rec.fail("C07/chunked-response-without-body-state", e);
            return false;
        }
    };
    if stop {
        f.stop_on_chunk_boundary(true);
    }
    let mut consumed = 0usize;
    let mut out: Vec<u8> = Vec::with_capacity(coded.data.len());
    let mut call_i = 0usize;
    let mut arrivals: Vec<usize> = cuts.to_vec();
    arrivals.push(stream.len());
    let step_cap = 8 * (stream.len() + coded.data.len()) + 256;
    let mut steps = 0usize;
    let mut next_chunk_end = 0usize; // index into coded.chunk_ends
    for arrived in arrivals {
        // the caller keeps reading while there is progress
        loop {
            steps += 1;
            if steps > step_cap {
                rec.fail("C07/no-termination", format!("{} reads and the body is not complete (consumed {} of {})", steps, consumed, clen));
                return false;
            }
            let window = &stream[consumed..arrived];
            let mut osz = pat.size(call_i);
            if let OutPat::ZeroAfterPayload(n) = pat {
                let outstanding = coded.data.len() - out.len();
                osz = outstanding.min(n);
            }
            call_i += 1;
            if toggle_every > 0 && call_i % toggle_every == 0 {
                stop = !stop;
                f.stop_on_chunk_boundary(stop);
                rec.cov("boundary-stop/toggled-mid-body");
            }
            let mut buf = vec![0u8; osz];
            rec.call();
            hookmon::arm(4 * (window.len() as u64 + osz as u64) + 64);
            let r = f.read(window, &mut buf);
            hookmon::disarm();
            let ended = f.can_proceed();
            rec.ev(|| format!("read(in={} {:?}, out={}) -> {:?} ended={} boundary={}", window.len(), esc_short(window, 24), osz, r, ended, f.is_on_chunk_boundary()));
            let (c, p) = match r {
                Ok(v) => v,
                Err(e) => {
                    rec.fail("C07/error-on-valid-coding", format!("read at coding offset {} (window {} bytes) -> Err({:?})", consumed, window.len(), e));
                    return false;
                }
            };
            if c > window.len() || p > osz {
                rec.fail("C07/counts-exceed-offer", format!("({}, {}) for ({}, {})", c, p, window.len(), osz));
                return false;
            }
            if consumed + c > clen {
                rec.fail(
                    "C07/over-read",
                    format!("consumed {} bytes in total but the coding ends at {}: {} bytes of the next message were eaten", consumed + c, clen, consumed + c - clen),
                );
                return false;
            }
            let start = out.len();
            out.extend_from_slice(&buf[..p]);
            if out.len() > coded.data.len() || out[start..] != coded.data[start..out.len()] {
                rec.fail(
                    "C07/payload-differs",
                    format!("output bytes {}..{} are {:?}, payload has {:?}", start, out.len(), esc_short(&out[start..], 40), esc_short(&coded.data[start.min(coded.data.len())..out.len().min(coded.data.len())], 40)),
                );
                return false;
            }
            if stop && p > 0 {
                while next_chunk_end < coded.chunk_ends.len() && coded.chunk_ends[next_chunk_end] <= start {
                    next_chunk_end += 1;
                }
                if let Some(e) = coded.chunk_ends.get(next_chunk_end) {
                    if out.len() > *e {
                        rec.fail(
                            "C07/read-spans-two-chunks",
                            format!("boundary stop on: one read returned payload bytes {}..{} but a chunk ends at {}", start, out.len(), e),
                        );
                        return false;
                    }
                }
            }
            consumed += c;
            let should_end = consumed == clen;
            if ended != should_end {
                rec.fail(
                    if ended { "C07/ended-early" } else { "C07/not-ended-after-final-crlf" },
                    format!("after consuming {} of {} coding bytes the body reports ended={}", consumed, clen, ended),
                );
                return false;
            }
            if c == 0 && p == 0 && osz == 0 && matches!(pat, OutPat::ZeroAfterPayload(_)) && out.len() == coded.data.len() {
                if arrived == stream.len() {
                    rec.fail(
                        "C07/framing-not-consumed-without-output-space",
                        format!("all payload delivered and the rest of the coding ({} bytes) is in the window, but a read into a zero-length buffer consumed nothing: a caller whose buffer is exactly full never sees the body end", clen - consumed),
                    );
                    return false;
                }
                break;
            }
            if c == 0 && p == 0 && osz > 0 {
                // no progress although there was room: wait for more input
                break;
            }
            if ended {
                break;
            }
        }
    }
    if consumed != clen {
        rec.fail("C07/not-fully-consumed", format!("whole coding offered, consumed {} of {}", consumed, clen));
        return false;
    }
    if out != coded.data {
        rec.fail("C07/payload-incomplete", format!("delivered {} of {} payload bytes", out.len(), coded.data.len()));
        return false;
    }
    // further reads change nothing, whatever follows on the connection
    let mut buf = [0u8; 16];
    for _ in 0..2 {
        rec.call();
        match f.read(&stream[consumed..], &mut buf) {
            Ok((0, 0)) => {}
            other => {
                rec.fail(
                    "C07/read-after-end",
                    format!("a read after the end of the body, with {:?} next on the connection -> {:?}: bytes after the coding were consumed", esc_short(&stream[consumed..], 30), other),
                );
                return false;
            }
        }
    }
    rec.cov(&format!("tail/{}", if tail.is_empty() { "nothing-follows" } else if tail.starts_with(b"\r\n") { "starts-with-CRLF" } else if tail.starts_with(b"0") { "looks-like-last-chunk" } else { "next-response" }));
    true
}

fn cov_cuts(coded: &Coded, cuts: &[usize], pat: OutPat, stop: bool, rec: &mut Rec) {
    for c in cuts {
        if *c > 0 && *c <= coded.toks.len() {
            rec.cov(&format!("cut-after/{}/{}", coded.toks[*c - 1].name(), pat.name()));
        }
    }
    rec.cov(if stop { "boundary-stop/on" } else { "boundary-stop/off" });
}

// ---------------------------------------------------------------- (A) tiny codings, all cut sets

fn tiny_codings() -> Vec<ChunkPlan> {
    let mut v = vec![];
    let exts: [Option<&'static str>; 2] = [None, Some(";x")];
    let trailers: [&[&'static str]; 2] = [&[], &["t:"]];
    for tr in trailers {
        for last_ext in exts {
            v.push(ChunkPlan { chunks: vec![], last_zeros: 0, last_ext, trailers: tr.to_vec() });
            for s1 in 1..=3usize {
                for e1 in exts {
                    for up in [false] {
                        v.push(ChunkPlan {
                            chunks: vec![ChunkSpec { size: s1, upper: up, zeros: 0, ext: e1 }],
                            last_zeros: 0,
                            last_ext,
                            trailers: tr.to_vec(),
                        });
                        for s2 in 1..=2usize {
                            v.push(ChunkPlan {
                                chunks: vec![ChunkSpec { size: s1, upper: up, zeros: 0, ext: e1 }, ChunkSpec { size: s2, upper: false, zeros: 0, ext: None }],
                                last_zeros: 0,
                                last_ext,
                                trailers: tr.to_vec(),
                            });
                        }
                    }
                }
            }
        }
    }
    v.push(ChunkPlan { chunks: vec![ChunkSpec { size: 1, upper: false, zeros: 2, ext: None }], last_zeros: 1, last_ext: None, trailers: vec![] });
    v.retain(|p| encode_plan(p, 0).bytes.len() <= 18);
    v
}

struct TinyIndex {
    plans: Vec<ChunkPlan>,
    /// cumulative number of cases before plan i (each plan: 2^(len-1) cut sets x 6 variants)
    starts: Vec<u64>,
    total: u64,
}

fn tiny_index(max_len: usize) -> TinyIndex {
    let plans: Vec<ChunkPlan> = tiny_codings().into_iter().filter(|p| encode_plan(p, 0).bytes.len() <= max_len).collect();
    let mut starts = vec![];
    let mut t = 0u64;
    for p in &plans {
        starts.push(t);
        let len = encode_plan(p, 0).bytes.len();
        t += (1u64 << (len - 1)) * 8;
    }
    TinyIndex { plans, starts, total: t }
}

fn tiny_case(ix: &TinyIndex, idx: u64, rec: &mut Rec) {
    let pi = match ix.starts.binary_search(&idx) {
        Ok(i) => i,
        Err(i) => i - 1,
    };
    let local = idx - ix.starts[pi];
    let variant = (local % 8) as usize;
    let mask = local / 8;
    let coded = encode_plan(&ix.plans[pi], 3);
    let len = coded.bytes.len();
    let cuts: Vec<usize> = (1..len).filter(|i| mask & (1 << (i - 1)) != 0).collect();
    let pat = [OutPat::Cycle04, OutPat::One, OutPat::Large, OutPat::ZeroAfterPayload(2)][variant % 4];
    let stop = variant >= 4;
    rec.ev(|| format!("coding {:?} cuts={:?} {} stop={}", esc_short(&coded.bytes, 60), cuts, pat.name(), stop));
    cov_cuts(&coded, &cuts, pat, stop, rec);
    run_coding(&coded, &cuts, pat, stop, rec);
}

// ---------------------------------------------------------------- (B) grammar x boundary cuts

const SIZES: [usize; 9] = [1, 2, 3, 15, 16, 255, 256, 4095, 4096];

fn grammar_plan(rng: &mut Rng) -> ChunkPlan {
    let n = rng.usize_in(0, 3);
    let mut plan = ChunkPlan::default();
    for _ in 0..n {
        let style = rng.below(3);
        plan.chunks.push(ChunkSpec {
            size: *rng.pick(&SIZES),
            upper: style == 1,
            zeros: if style == 2 { rng.usize_in(1, 3) } else { 0 },
            ext: if rng.chance(1, 2) { Some(*rng.pick(&CHUNK_EXTS)) } else { None },
        });
    }
    plan.last_ext = if rng.chance(1, 4) { Some(";last") } else { None };
    plan.last_zeros = if rng.chance(1, 4) { 1 } else { 0 };
    for _ in 0..rng.usize_in(0, 2) {
        plan.trailers.push(*rng.pick(&TRAILERS));
    }
    plan
}

fn near_boundaries(coded: &Coded) -> Vec<usize> {
    let len = coded.bytes.len();
    let mut v = vec![];
    for b in &coded.boundaries {
        for d in 0..7usize {
            let p = (*b + d).saturating_sub(3);
            if p >= 1 && p < len {
                v.push(p);
            }
        }
    }
    v.sort();
    v.dedup();
    v
}

fn grammar_case(rng: &mut Rng, rec: &mut Rec) {
    let plan = grammar_plan(rng);
    let coded = encode_plan(&plan, rng.below(200) as u8);
    let len = coded.bytes.len();
    let cand = near_boundaries(&coded);
    rec.ev(|| format!("coding ({} bytes, {} chunks {:?}, {} trailers): {:?}", len, plan.chunks.len(), plan.chunks.iter().map(|c| c.size).collect::<Vec<_>>(), plan.trailers.len(), esc_short(&coded.bytes, 80)));
    let pats = [OutPat::Cycle04, OutPat::One, OutPat::Large, OutPat::Fixed(rng.usize_in(2, 40)), OutPat::ZeroAfterPayload(rng.usize_in(1, 5000))];
    let mut variant = rng.below(8) as usize;
    let mut run = |cuts: &[usize], rec: &mut Rec| -> bool {
        variant += 1;
        let mut pat = pats[variant % 5];
        if len > 600 && matches!(pat, OutPat::Cycle04 | OutPat::One) && variant % 3 != 0 {
            pat = OutPat::Fixed(100 + variant % 7);
        }
        let stop = (variant / 4) % 2 == 0;
        cov_cuts(&coded, cuts, pat, stop, rec);
        run_coding(&coded, cuts, pat, stop, rec)
    };
    // no cut, every single cut near a boundary
    if !run(&[], rec) {
        return;
    }
    for c in &cand {
        if !run(&[*c], rec) {
            return;
        }
    }
    // pairs
    if len <= 400 {
        for (i, a) in cand.iter().enumerate() {
            for b in &cand[i + 1..] {
                if !run(&[*a, *b], rec) {
                    return;
                }
            }
        }
    } else {
        for _ in 0..120 {
            let a = *rng.pick(&cand);
            let b = *rng.pick(&cand);
            if a == b {
                continue;
            }
            if !run(&[a.min(b), a.max(b)], rec) {
                return;
            }
        }
    }
    // byte at a time (short codings) and random cut sets
    if len <= 1200 {
        let all: Vec<usize> = (1..len).collect();
        if !run(&all, rec) {
            return;
        }
    }
    for _ in 0..6 {
        let k = rng.usize_in(1, 12);
        let mut cuts: Vec<usize> = (0..k).map(|_| rng.usize_in(1, len - 1)).collect();
        cuts.sort();
        cuts.dedup();
        if !run(&cuts, rec) {
            return;
        }
    }
}

// ---------------------------------------------------------------- (C) random beyond the scope

fn random_case(rng: &mut Rng, rec: &mut Rec) {
    let plan = random_plan(rng, 8, 20_000);
    let coded = encode_plan(&plan, rng.below(200) as u8);
    let len = coded.bytes.len();
    rec.ev(|| format!("coding ({} bytes, chunks {:?}, trailer lines {:?})", len, plan.chunks.iter().map(|c| c.size).collect::<Vec<_>>(), plan.trailers.iter().map(|t| t.len()).collect::<Vec<_>>()));
    if plan.trailers.iter().any(|t| t.len() >= 98) {
        rec.cov("trailer-line/98-bytes-or-more");
    }
    if plan.chunks.iter().any(|c| c.zeros + 1 > 20) || plan.last_zeros + 1 > 20 {
        rec.cov("size-spelling/more-than-20-digits");
    }
    if plan.chunks.iter().any(|c| c.ext.map(|e| e.starts_with(' ')).unwrap_or(false)) || plan.last_ext.map(|e| e.starts_with(' ')).unwrap_or(false) {
        rec.cov("size-spelling/blanks-before-extension");
    }
    for _ in 0..4 {
        let k = rng.usize_in(0, 20);
        let mut cuts: Vec<usize> = (0..k)
            .map(|_| if rng.chance(1, 2) && !coded.boundaries.is_empty() { (*rng.pick(&coded.boundaries) + rng.usize_in(0, 4)).saturating_sub(2).clamp(1, len - 1) } else { rng.usize_in(1, len - 1) })
            .collect();
        cuts.sort();
        cuts.dedup();
        let pat = match rng.below(5) {
            4 => OutPat::ZeroAfterPayload(rng.usize_in(1, 30_000)),
            0 => OutPat::Large,
            1 => OutPat::Fixed(rng.usize_in(1, 64)),
            2 => OutPat::Fixed(rng.usize_in(64, 5000)),
            _ => {
                if len < 3000 {
                    OutPat::Cycle04
                } else {
                    OutPat::Fixed(1000)
                }
            }
        };
        let stop = rng.chance(1, 2);
        let toggle = if rng.chance(1, 4) { rng.usize_in(1, 5) } else { 0 };
        cov_cuts(&coded, &cuts, pat, stop, rec);
        if !run_coding_toggle(&coded, &cuts, pat, stop, toggle, rec) {
            return;
        }
    }
}

impl Property for P {
    fn id(&self) -> &'static str {
        "C07"
    }
    fn rule(&self) -> String {
        "chunked codings are rendered from a plan (sizes, hex case, leading zeros, extensions, trailers, payload containing CR/LF/'0'/';'), so payload, coding length and chunk map are known. Each run delivers the coding followed by the head of a next message under a cut set, reading while there is progress with a given output-size pattern, boundary stop on or off, and checks after every read: output == payload so far, never a byte beyond the coding consumed, ended <=> final CRLF consumed, no read spanning two chunks with boundary stop. (A) every coding <= 18 bytes of a tiny grammar x ALL cut sets x {out 0..4 cycle, 1, large, exact-then-zero-length} x stop on/off; the response carrying the coding is one of eight (method, status) pairs incl. 205, 301, 404, 500; (B) grammar codings (<=3 chunks, sizes 1,2,3,15,16,255,256,4095,4096, ext, hex styles, 0..2 trailers) x every single cut and every pair of cuts within +-3 of a token boundary, byte-at-a-time, random cut sets; (C) random codings up to 8 chunks of 20 KB. The coding is announced as chunked / Chunked / gzip, chunked / chunked, (empty list element) / with blanks / with a tab inside the list / on two field lines; chunk extensions up to 120 bytes; trailer lines up to 5000 bytes occur in the random plans. class = token kind before the cut x output pattern; decoder transitions actually taken are counted by the in-crate hook. One run in five reads through the single-call API (Call::<RecvBody>::read), one flow in six receives an interim 102/103 first, one head in four carries a Content-Length next to its Transfer-Encoding lines; sizes padded to 17..41 digits, blanks before and octets above 0x7f inside chunk extensions.".into()
    }
    fn assumptions(&self) -> Vec<String> {
        vec![
            "a chunk size has at most 20 significant digits (more would not fit a usize); leading zeros, blanks before an extension, extensions and trailer lines are not bounded".into(),
            "the caller re-presents unconsumed bytes and stops reading a window when a read makes no progress".into(),
        ]
    }
    fn workloads(&self, tier: Tier) -> Vec<Workload> {
        let ix = tiny_index(tier.pick(14, 18));
        vec![
            Workload::new(if tier == Tier::Quick { "tiny-all-cutsets-14" } else { "tiny-all-cutsets-18" }, ix.total, true, format!("{} codings of <= {} bytes, every cut set, 8 variants", ix.plans.len(), tier.pick(14, 18))),
            Workload::new("grammar-boundary-cuts", tier.pick(500, 60_000), false, "grammar codings x single/pair cuts near token boundaries"),
            Workload::new("random-codings", tier.pick(1_500, 400_000), false, "random codings beyond the small scope"),
        ]
    }
    fn run_case(&self, wl: &str, idx: u64, seed: u64, rec: &mut Rec) {
        match wl {
            "tiny-all-cutsets-14" | "tiny-all-cutsets-18" => {
                thread_local! {
                    static IX: std::cell::RefCell<Option<(usize, TinyIndex)>> = const { std::cell::RefCell::new(None) };
                }
                let max_len = if wl.ends_with("14") { 14 } else { 18 };
                IX.with(|c| {
                    let mut c = c.borrow_mut();
                    if c.as_ref().map(|x| x.0) != Some(max_len) {
                        *c = Some((max_len, tiny_index(max_len)));
                    }
                    tiny_case(&c.as_ref().unwrap().1, idx, rec)
                })
            }
            "grammar-boundary-cuts" => {
                let mut rng = Rng::derive(seed, wl, idx);
                grammar_case(&mut rng, rec)
            }
            _ => {
                let mut rng = Rng::derive(seed, wl, idx);
                random_case(&mut rng, rec)
            }
        }
    }
    fn floors(&self, _tier: Tier) -> Vec<(String, u64)> {
        let mut v = vec![];
        for t in ["size-digits", "size-ext", "size-CR", "size-LF", "data", "data-CR", "data-LF", "last-digits", "last-CR", "last-LF", "trailer", "trailer-CR", "trailer-LF", "final-CR"] {
            v.push((format!("cut-after/{}/*", t), 100));
        }
        for e in ["Size->Chunk", "Size->Ending", "Chunk->CrLf", "CrLf->Size", "Ending->Ended", "Ending->Trailer", "Trailer->Ending"] {
            v.push((format!("hook:dechunk:{}", e), 1000));
        }
        v.push(("boundary-stop/on".into(), 1000));
        v.push(("cut-after/data/out=0-after-payload".into(), 100));
        v.push(("tail/starts-with-CRLF".into(), 1000));
        v.push(("tail/nothing-follows".into(), 1000));
        v.push(("tail/looks-like-last-chunk".into(), 1000));
        v.push(("boundary-stop/off".into(), 1000));
        v.push(("trailer-line/98-bytes-or-more".into(), 20));
        v.push(("size-spelling/more-than-20-digits".into(), 20));
        v.push(("size-spelling/blanks-before-extension".into(), 20));
        v.push(("reader/single-call-api".into(), 1000));
        v
    }
}
