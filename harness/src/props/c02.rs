//! C02 — request head on the wire is well-formed and faithful to the request.
use super::heads::*;
use crate::core::{Property, Rec, Tier, Workload};
use crate::drive::*;
use crate::json::{esc, esc_short};
use crate::rng::Rng;
use crate::wire::*;
use ureq_proto::client::call::Call;
use ureq_proto::client::flow::state::{Prepare, SendRequest};
use ureq_proto::client::flow::{Await100Result, RedirectAuthHeaders, SendRequestResult};
use ureq_proto::Error;

pub struct P;

const NAMES: [&str; 19] = [
    // (one-letter names: with an empty value the whole line is five bytes)
    "x", "y", "Z", "x-null", "X-Null", "accept", "X-A", "x-b", "User-Agent", "x-a", "Accept-Encoding", "x-quite-long-header-name-to-make-lines-differ", "cookie", "connection", "X-B", "if-none-match", "x-c", "te", "cache-control",
];

fn rand_value(rng: &mut Rng, tag: &str) -> Vec<u8> {
    let mut v = tag.as_bytes().to_vec();
    match rng.below(10) {
        0 => v.clear(),
        1 => v.extend_from_slice(&[b' ', 0x80, 0xff, 0xe9, b' ', b'z']),
        2 => v.extend_from_slice(b" with space\tand tab"),
        3 => v.extend_from_slice(&vec![b'y'; rng.usize_in(20, 200)]),
        4 => v.extend_from_slice(b": colon: inside"),
        _ => {}
    }
    v
}

pub struct Case {
    pub cfg: ReqCfg,
    pub hops: Vec<Hop>,
    pub policy: RedirectAuthHeaders,
    pub body_follows: bool,
}

pub fn gen_case(rng: &mut Rng) -> Case {
    let depth = match rng.below(10) {
        0 | 1 => 1,
        2 => 2,
        3 => 3,
        _ => 0,
    };
    let method = *rng.pick(&METHODS);
    let scheme = *rng.pick(&["http", "https"]);
    let host = *rng.pick(&["a.test", "b.example", "EXAMPLE.test", "127.0.0.1", "xn--nxasmq6b.test"]);
    let port = *rng.pick(&["", "", ":8080", ":80"]);
    let path = *rng.pick(&["/", "/a/b", "/p%20q/r", "", "/very/long/path/that/goes/on/and/on/and/on"]);
    let query = *rng.pick(&["", "", "?x=1", "?a=b&c=d%2F"]);
    let mut cfg = ReqCfg::new(method, &format!("{}://{}{}{}{}", scheme, host, port, path, query));
    if http10_method(method) && rng.chance(1, 4) {
        cfg.ver = Ver::V10;
    }
    let n_orig = match rng.below(6) {
        0 => 0,
        1 => rng.usize_in(40, 60),
        _ => rng.usize_in(0, 8),
    };
    for i in 0..n_orig {
        let name = *rng.pick(&NAMES);
        cfg.orig.push((name.to_string(), rand_value(rng, &format!("o{}", i))));
    }
    let n_added = match rng.below(6) {
        0 => rng.usize_in(40, 60),
        1 | 2 => 0,
        _ => rng.usize_in(0, 6),
    };
    for i in 0..n_added {
        let name = *rng.pick(&NAMES);
        cfg.added.push((name.to_string(), rand_value(rng, &format!("a{}", i))));
    }
    // Host: explicit or derived
    match rng.below(8) {
        0 => cfg.orig.push(("Host".into(), b"explicit.test".to_vec())),
        1 => cfg.added.push(("host".into(), b"added.test:99".to_vec())),
        _ => {}
    }
    if rng.chance(1, 5) {
        cfg.orig.push(("authorization".into(), b"Basic c2VjcmV0".to_vec()));
    }
    // body
    let mut body_follows = needs_body(method);
    if !body_follows && rng.chance(1, 5) {
        cfg.despite = true;
        body_follows = true;
    }
    if depth > 0 {
        // after a redirect only body-less methods remain; `despite` then applies to the final flow
        body_follows = cfg.despite;
    }
    if needs_body(method) || cfg.despite {
        match rng.below(5) {
            0 => cfg.orig.push(("content-length".into(), rng.usize_in(0, 3).to_string().into_bytes())),
            1 if depth == 0 => cfg.orig.push(("Transfer-Encoding".into(), rng.pick(&[&b"chunked"[..], &b"Chunked"[..], &b"CHUNKED"[..]]).to_vec())),
            2 => cfg.added.push(("Content-Length".into(), rng.usize_in(0, 100_000).to_string().into_bytes())),
            3 => cfg.added.push(("transfer-encoding".into(), rng.pick(&[&b"chunked"[..], &b"chUnked"[..]]).to_vec())),
            _ => {}
        }
        if !body_follows {
            // a framing header added on a flow that will not send a body would be invalid (C17)
            cfg.added.retain(|(n, _)| !n.eq_ignore_ascii_case("content-length") && !n.eq_ignore_ascii_case("transfer-encoding"));
        }
        if rng.chance(1, 4) {
            cfg.orig.push(("expect".into(), b"100-continue".to_vec()));
        }
    }
    // exactly one Host and at most one framing header among the effective ones (C17 classes)
    let mut seen_host = false;
    cfg.added.retain(|(n, _)| {
        if n.eq_ignore_ascii_case("host") {
            if seen_host {
                return false;
            }
            seen_host = true;
        }
        true
    });
    if seen_host {
        cfg.orig.retain(|(n, _)| !n.eq_ignore_ascii_case("host"));
    }
    let has_orig_framing = cfg.orig.iter().any(|(n, _)| n.eq_ignore_ascii_case("content-length") || n.eq_ignore_ascii_case("transfer-encoding"));
    if has_orig_framing && depth == 0 {
        cfg.added.retain(|(n, _)| !n.eq_ignore_ascii_case("content-length") && !n.eq_ignore_ascii_case("transfer-encoding"));
    }
    if depth > 0 {
        // the framing headers of the original request (content-length, transfer-encoding) are dropped on redirect
        if !needs_body(method) {
            // the hop requests are sent without `despite`: a framing header on them would be invalid (C17)
            cfg.orig.retain(|(n, _)| !n.eq_ignore_ascii_case("content-length"));
        }
    }
    let policy = if rng.chance(1, 2) { RedirectAuthHeaders::Never } else { RedirectAuthHeaders::SameHost };
    if depth > 0 && policy == RedirectAuthHeaders::SameHost {
        // whether the credential survives is C13's business (it may legitimately be dropped)
        cfg.orig.retain(|(n, _)| !n.eq_ignore_ascii_case("authorization"));
    }
    let mut hops = vec![];
    for i in 0..depth {
        let status = *rng.pick(&[301u16, 302, 303, 307, 308]);
        let loc = match rng.below(3) {
            0 => format!("http://hop{}.test/r{}?z={}", i, i, i),
            1 => format!("{}://{}{}/again/{}", scheme, host, port, i),
            _ => format!("/same/host/{}", i),
        };
        hops.push(Hop { status, locations: vec![loc.into_bytes()], with_body: rng.chance(1, 2) });
    }
    Case {
        cfg,
        hops,
        policy,
        body_follows,
    }
}

/// Build the final Prepare flow of the case (after its hops) and the model of what it must send.
/// Ok(None): the chain stopped (redirect not followed) — nothing to check here.
pub fn final_flow(case: &Case) -> Result<Option<(F<Prepare>, Eff)>, String> {
    // hop flows carry no caller-added headers: those belong to one request only
    let mut hop_cfg = case.cfg.clone();
    hop_cfg.added.clear();
    hop_cfg.despite = false;
    let original = split_uri(&case.cfg.uri);
    let mut eff = initial_eff(&case.cfg);
    let mut flow = build_flow(&hop_cfg).map_err(|e| format!("Flow::new: {:?}", e))?;
    for hop in &case.hops {
        match follow_one(flow, &hop_cfg, &eff, &original, hop, case.policy)? {
            Followed::Next(f, e) => {
                flow = f;
                eff = e;
            }
            Followed::NotFollowed => return Ok(None),
            Followed::Error(e) => return Err(format!("as_new_flow: {}", e)),
        }
    }
    apply_prepare(&mut flow, &case.cfg).map_err(|e| format!("prepare: {:?}", e))?;
    Ok(Some((flow, eff)))
}

fn lower(v: &[(String, Vec<u8>)]) -> Vec<(String, Vec<u8>)> {
    v.iter().map(|(n, v)| (n.to_ascii_lowercase(), v.clone())).collect()
}

/// Check a complete head against the model. Returns the parsed head.
pub fn check_head(bytes: &[u8], case: &Case, eff: &Eff, rec: &mut Rec) -> Option<ParsedHead> {
    let h = match parse_request_head_strict(bytes) {
        Ok(h) => h,
        Err(e) => {
            rec.fail("C02/not-one-wellformed-head", format!("{} in {:?}", e, esc_short(bytes, 300)));
            return None;
        }
    };
    if h.method != eff.method {
        rec.fail("C02/method", format!("request line method {} expected {}", h.method, eff.method));
        return None;
    }
    let want_version = case.cfg.ver.token();
    if h.version != want_version {
        rec.fail("C02/version", format!("request line version {} expected {}", h.version, want_version));
        return None;
    }
    let pq = {
        let mut s = eff.uri.path.clone();
        if let Some(q) = &eff.uri.query {
            s.push('?');
            s.push_str(q);
        }
        s
    };
    let ok_target = if pq.is_empty() {
        h.target == "/"
    } else if eff.uri.path.is_empty() {
        // empty path with a query: "?x" (path-and-query as is) and "/?x" are both accepted
        h.target == pq || h.target == format!("/{}", pq)
    } else {
        h.target == pq
    };
    if !ok_target {
        rec.fail("C02/target", format!("request target {:?}, effective URI path-and-query {:?}", h.target, pq));
        return None;
    }
    // effective caller headers
    let mut expected = lower(&case.cfg.added);
    expected.extend(eff.inherited.iter().cloned());
    let caller_host = expected.iter().any(|(n, _)| n == "host");
    let caller_framing = expected.iter().any(|(n, v)| n == "content-length" || (n == "transfer-encoding" && v.eq_ignore_ascii_case(b"chunked")));
    let mut got: Vec<(String, Vec<u8>)> = h.headers.clone();
    if got.iter().any(|(n, _)| n.chars().any(|c| c.is_ascii_uppercase())) {
        // not demanded by the statement; names are compared case-insensitively
        got = lower(&got);
    }
    let hosts: Vec<&Vec<u8>> = got.iter().filter(|(n, _)| n == "host").map(|(_, v)| v).collect();
    if hosts.len() != 1 {
        rec.fail("C02/host-count", format!("{} Host headers in {:?}", hosts.len(), fmt_fields(&got)));
        return None;
    }
    if caller_host && eff.depth >= 1 && !case.cfg.added.iter().any(|(n, _)| n.eq_ignore_ascii_case("host")) {
        // A Host header spelled out on the ORIGINAL request, seen again after a redirect: the statement
        // does not say whether "the caller supplied" it for this request too. Both readings are
        // accepted here - the inherited value in its place, or a Host derived from the new URI wherever
        // it stands (C14 owns "names that URI's host") - so the one Host line is taken out of the
        // comparison and only its value is looked at.
        let hv = String::from_utf8_lossy(hosts[0]).to_ascii_lowercase();
        let want = host_of(&eff.uri);
        let host_part = hv.rsplit_once(':').map(|(h, p)| if p.chars().all(|c| c.is_ascii_digit()) { h.to_string() } else { hv.clone() }).unwrap_or(hv.clone());
        let inherited_value = expected.iter().any(|(n, v)| n == "host" && v.eq_ignore_ascii_case(hosts[0]));
        if !(inherited_value || host_part == want || hv == want) {
            rec.fail("C02/derived-host", format!("Host {:?} after a redirect is neither the original request's nor the URI host {:?}", hv, want));
            return None;
        }
        got.retain(|(n, _)| n != "host");
        expected.retain(|(n, _)| n != "host");
        rec.cov("host/explicit-on-original-after-redirect");
    } else if !caller_host {
        let hv = String::from_utf8_lossy(hosts[0]).to_ascii_lowercase();
        let want = host_of(&eff.uri);
        let host_part = hv.rsplit_once(':').map(|(h, p)| if p.chars().all(|c| c.is_ascii_digit()) { h.to_string() } else { hv.clone() }).unwrap_or(hv.clone());
        if host_part != want && hv != want {
            rec.fail("C02/derived-host", format!("derived Host {:?} does not name the URI host {:?}", hv, want));
            return None;
        }
        let at = got.iter().position(|(n, _)| n == "host").unwrap();
        got.remove(at);
    }
    if case.body_follows && !caller_framing {
        let at = got.iter().position(|(n, v)| n == "transfer-encoding" && v.eq_ignore_ascii_case(b"chunked"));
        match at {
            Some(i) => {
                got.remove(i);
            }
            None => {
                rec.fail(
                    "C02/default-framing-missing",
                    format!("a body follows and the caller gave no framing header, but no transfer-encoding: chunked in {:?}", fmt_fields(&got)),
                );
                return None;
            }
        }
    }
    if got != expected {
        // find the first difference for the message
        let i = got.iter().zip(expected.iter()).position(|(a, b)| a != b).unwrap_or(got.len().min(expected.len()));
        rec.fail(
            "C02/header-sequence",
            format!(
                "effective headers differ at position {}: wire has {:?}, expected {:?} (wire {} headers, expected {}: caller-added first in order, then the original ones)",
                i,
                got.get(i).map(|(n, v)| format!("{}: {}", n, esc(v))),
                expected.get(i).map(|(n, v)| format!("{}: {}", n, esc(v))),
                got.len(),
                expected.len()
            ),
        );
        return None;
    }
    let n_framing = h
        .headers
        .iter()
        .filter(|(n, v)| n.eq_ignore_ascii_case("content-length") || (n.eq_ignore_ascii_case("transfer-encoding") && v.eq_ignore_ascii_case(b"chunked")))
        .count();
    if case.body_follows && n_framing != 1 {
        rec.fail("C02/framing-count", format!("{} framing headers for a request with a body", n_framing));
        return None;
    }
    if !case.body_follows && n_framing != 0 {
        rec.fail("C02/framing-without-body", format!("{} framing headers on a request without a body", n_framing));
        return None;
    }
    Some(h)
}

/// Write the head of `f` under a buffer size schedule that is biased to the unit boundaries
/// of `reference` and check every call.
fn scheduled_write(f: &mut F<SendRequest>, reference: &ParsedHead, ref_bytes: &[u8], rng: &mut Rng, rec: &mut Rec) -> bool {
    let mut off = 0usize;
    let total = reference.len;
    let mut calls = 0;
    let mut next_unit = 0usize;
    while off < total {
        calls += 1;
        if calls > 2000 {
            rec.fail("C02/head-not-finishing", format!("2000 calls and only {} of {} bytes", off, total));
            return false;
        }
        while reference.units[next_unit] <= off {
            next_unit += 1;
        }
        let l = reference.units[next_unit] - off;
        let l2 = reference.units.get(next_unit + 1).map(|e| e - off).unwrap_or(l);
        let size = match rng.below(12) {
            0 => 0,
            1 => l - 1,
            2 => l,
            3 => l + 1,
            4 => l2 - 1,
            5 => l2,
            6 => total - off,
            7 => total - off + rng.usize_in(1, 50),
            8 => rng.usize_in(0, l),
            9 => total - off - 1,
            _ => rng.usize_in(0, 300),
        };
        let mut buf = vec![0xEEu8; size];
        rec.call();
        let was_ready = f.can_proceed();
        if rng.chance(1, 5) {
            // read-only views between writes
            let _ = f.headers_map();
            let _ = f.uri();
            rec.cov("query/headers_map-between-writes");
        }
        let r = f.write(&mut buf);
        rec.ev(|| format!("write(out={}) at offset {} (next unit {} bytes) -> {:?}", size, off, l, r));
        let fits = l <= size;
        if next_unit + 2 == reference.units.len() && fits && size < l + 2 {
            // room for the last header line and not for the empty line behind it
            rec.cov("unit#header/fits/last-without-blank");
        }
        rec.cov(&format!("unit#{}/{}/{}", if next_unit == 0 { "line" } else if next_unit + 1 == reference.units.len() { "blank" } else { "header" }, if fits { "fits" } else { "overflow" }, if size == l { "exact" } else if size + 1 == l { "one-short" } else { "other" }));
        if was_ready {
            rec.fail("C02/ready-before-complete", format!("can_proceed() true at offset {} of {}", off, total));
            return false;
        }
        match r {
            Ok(n) => {
                if !fits {
                    rec.fail("C02/ok-although-next-line-does-not-fit", format!("write(out={}) -> Ok({}) but the next line needs {} bytes", size, n, l));
                    return false;
                }
                if n == 0 {
                    rec.fail("C02/ok-zero-before-complete", format!("write(out={}) -> Ok(0) at offset {}, next line is {} bytes and fits", size, off, l));
                    return false;
                }
                if n > size {
                    rec.fail("C02/overrun", format!("Ok({}) into {} bytes", n, size));
                    return false;
                }
                if buf[..n] != ref_bytes[off..(off + n).min(total)] {
                    rec.fail(
                        "C02/bytes-differ-from-oneshot",
                        format!("call at offset {} emitted {:?}, one-shot head has {:?}", off, esc_short(&buf[..n], 80), esc_short(&ref_bytes[off..(off + n).min(total)], 80)),
                    );
                    return false;
                }
                off += n;
                if !reference.units.contains(&off) {
                    rec.fail("C02/partial-line", format!("after write(out={}) the cumulative output ends at {} which is inside a line", size, off));
                    return false;
                }
            }
            Err(Error::OutputOverflow) => {
                if fits {
                    rec.fail("C02/overflow-although-line-fits", format!("write(out={}) -> OutputOverflow but the next line is {} bytes", size, l));
                    return false;
                }
            }
            Err(e) => {
                rec.fail("C02/write-error", format!("write(out={}) -> Err({:?})", size, e));
                return false;
            }
        }
    }
    if !f.can_proceed() {
        rec.fail("C02/not-ready-after-complete", "whole head emitted but can_proceed() is false".into());
        return false;
    }
    // calls after completion emit nothing
    for size in [0usize, 5, 4096] {
        let mut buf = vec![0u8; size];
        rec.call();
        let r = f.write(&mut buf);
        rec.ev(|| format!("write(out={}) after completion -> {:?}", size, r));
        match r {
            Ok(0) => rec.cov("after-complete/ok0"),
            Ok(n) => {
                rec.fail("C02/bytes-after-complete", format!("write(out={}) after the head was complete emitted {} bytes: {:?}", size, n, esc_short(&buf[..n.min(size)], 40)));
                return false;
            }
            Err(Error::OutputOverflow) => {
                // the overflow error is reserved for "not even the next line fits"; there is no next line
                rec.fail("C02/overflow-after-complete", format!("write(out={}) after the head was complete -> OutputOverflow although no line is left to fit", size));
                return false;
            }
            Err(_) => rec.cov("after-complete/err"),
        }
        if !f.can_proceed() {
            rec.fail("C02/unready-after-extra-call", "can_proceed() turned false after an extra write".into());
            return false;
        }
    }
    true
}

fn flow_case(rng: &mut Rng, rec: &mut Rec) {
    let case = gen_case(rng);
    rec.ev(|| format!("request: {} hops={:?} policy={:?}", case.cfg.describe(), case.hops.iter().map(|h| (h.status, esc(h.locations.last().unwrap()))).collect::<Vec<_>>(), case.policy));
    // reference: one-shot
    let (flow, eff) = match final_flow(&case) {
        Ok(Some(v)) => v,
        Ok(None) => {
            rec.cov("chain-not-followed");
            return;
        }
        Err(e) => return rec.fail("C02/setup", format!("{}: {}", case.cfg.describe(), e)),
    };
    let mut f = flow.proceed();
    rec.call();
    let ref_bytes = match write_head_big(&mut f) {
        Ok(b) => b,
        Err(e) => return rec.fail("C02/valid-request-refused", format!("{}: {:?}", case.cfg.describe(), e)),
    };
    let parsed = match check_head(&ref_bytes, &case, &eff, rec) {
        Some(p) => p,
        None => return,
    };
    rec.cov(&format!("depth={}/{}/{}", eff.depth, if case.body_follows { "body" } else { "no-body" }, if parsed.headers.len() > 40 { "many-headers" } else { "few-headers" }));
    // the framing header is the one the body writer uses
    if case.body_follows {
        let expect_chunked = parsed.headers.iter().any(|(n, _)| n.eq_ignore_ascii_case("transfer-encoding"));
        rec.call();
        let next = match f.proceed() {
            Ok(Some(n)) => n,
            other => return rec.fail("C02/proceed-after-head", format!("{:?}", other.map(|o| o.is_some()))),
        };
        let mut sb = match next {
            SendRequestResult::SendBody(s) => s,
            SendRequestResult::Await100(a) => match a.proceed() {
                Ok(Await100Result::SendBody(s)) => s,
                _ => return rec.fail("C02/await100-giveup", "giving up on 100 did not lead to SendBody".into()),
            },
            SendRequestResult::RecvResponse(_) => return rec.fail("C02/body-state-skipped", format!("{}: a body is due but the flow went to RecvResponse", case.cfg.describe())),
        };
        rec.call();
        let is_chunked = sb.is_chunked();
        if is_chunked != expect_chunked {
            return rec.fail("C02/framing-header-vs-writer", format!("head announces {} but the body writer is {}", if expect_chunked { "chunked" } else { "content-length" }, if is_chunked { "chunked" } else { "sized" }));
        }
        let declared: Option<u64> = parsed.headers.iter().find(|(n, _)| n.eq_ignore_ascii_case("content-length")).and_then(|(_, v)| std::str::from_utf8(v).ok()?.parse().ok());
        if is_chunked || declared.unwrap_or(0) >= 1 {
            let mut buf = [0u8; 32];
            rec.call();
            match sb.write(b"Z", &mut buf) {
                Ok((1, p)) => {
                    let want: &[u8] = if is_chunked { b"1\r\nZ\r\n" } else { b"Z" };
                    if &buf[..p] != want {
                        return rec.fail("C02/body-format-vs-framing-header", format!("first body byte went out as {:?}", esc(&buf[..p])));
                    }
                }
                other => return rec.fail("C02/body-write", format!("{:?}", other)),
            }
            rec.cov(if is_chunked { "body/chunked" } else { "body/sized" });
        }
    }
    // now the same request under buffer size schedules
    for _ in 0..2 {
        let (flow, _) = match final_flow(&case) {
            Ok(Some(v)) => v,
            _ => return rec.fail("C02/setup-nondeterministic", "second construction of the same case failed".into()),
        };
        let mut f = flow.proceed();
        if !scheduled_write(&mut f, &parsed, &ref_bytes, rng, rec) {
            return;
        }
    }
}

fn call_case(rng: &mut Rng, rec: &mut Rec) {
    let mut case = gen_case(rng);
    case.hops.clear();
    case.cfg.despite = false;
    case.body_follows = needs_body(case.cfg.method);
    if !case.body_follows {
        case.cfg.orig.retain(|(n, _)| !n.eq_ignore_ascii_case("content-length") && !n.eq_ignore_ascii_case("transfer-encoding"));
        case.cfg.added.retain(|(n, _)| !n.eq_ignore_ascii_case("content-length") && !n.eq_ignore_ascii_case("transfer-encoding"));
    }
    // no prepare state in the single-call API: everything is an original header
    let added: Vec<_> = case.cfg.added.drain(..).collect();
    case.cfg.orig.extend(added);
    if case.cfg.orig.iter().filter(|(n, _)| n.eq_ignore_ascii_case("host")).count() > 1 {
        let mut seen = false;
        case.cfg.orig.retain(|(n, _)| {
            if n.eq_ignore_ascii_case("host") {
                if seen {
                    return false;
                }
                seen = true;
            }
            true
        });
    }
    let nf = case.cfg.orig.iter().filter(|(n, _)| n.eq_ignore_ascii_case("content-length") || n.eq_ignore_ascii_case("transfer-encoding")).count();
    if nf > 1 {
        let mut seen = false;
        case.cfg.orig.retain(|(n, _)| {
            if n.eq_ignore_ascii_case("content-length") || n.eq_ignore_ascii_case("transfer-encoding") {
                if seen {
                    return false;
                }
                seen = true;
            }
            true
        });
    }
    let eff = initial_eff(&case.cfg);
    rec.ev(|| format!("Call API request: {}", case.cfg.describe()));
    let sizes: Vec<usize> = (0..400).map(|_| match rng.below(4) { 0 => rng.usize_in(0, 40), 1 => rng.usize_in(0, 120), 2 => 4096, _ => rng.usize_in(0, 400) }).collect();
    // line ends of the same request written in one go by a fresh call: half of the buffer sizes sit on them
    let ref_units: Vec<usize> = {
        let mut big = vec![0u8; 1 << 18];
        let n = if case.body_follows {
            Call::with_body(build_request(&case.cfg)).ok().and_then(|mut c| c.write(&[], &mut big).ok()).map(|r| r.1)
        } else {
            Call::without_body(build_request(&case.cfg)).ok().and_then(|mut c| c.write(&mut big).ok())
        };
        n.and_then(|n| parse_request_head_strict(&big[..n]).ok()).map(|h| h.units).unwrap_or_default()
    };
    let mut r2 = rng.fork();
    let mut near_line = |off: usize, s: usize| -> usize {
        match ref_units.iter().find(|u| **u > off) {
            Some(u) if r2.chance(1, 2) => (u - off + 2).saturating_sub(r2.usize_in(0, 3)),
            _ => s,
        }
    };
    let mut out = Vec::new();
    let mut chunks = vec![];
    // (offset before the call, buffer size, refused with OutputOverflow)
    let mut attempts: Vec<(usize, usize, bool)> = vec![];
    if case.body_follows {
        let mut c = match Call::with_body(build_request(&case.cfg)) {
            Ok(c) => c,
            Err(e) => return rec.fail("C02/setup", format!("{:?}", e)),
        };
        let mut big = false;
        for (i, s) in sizes.iter().enumerate() {
            let size = if big || i > 380 { 8192 } else { near_line(out.len(), *s) };
            let mut buf = vec![0u8; size];
            rec.call();
            let r = c.write(&[], &mut buf);
            attempts.push((out.len(), size, matches!(r, Err(Error::OutputOverflow))));
            match r {
                Ok((0, n)) => {
                    out.extend_from_slice(&buf[..n]);
                    chunks.push(out.len());
                    if n == 0 {
                        // the head is complete: an empty input is now the finishing body write (single-call API contract)
                        break;
                    }
                }
                Ok((c, n)) => return rec.fail("C02/call-consumed-input", format!("write(&[], out={}) -> ({}, {})", size, c, n)),
                Err(Error::OutputOverflow) => {
                    big = i % 5 == 4;
                }
                Err(e) => return rec.fail("C02/valid-request-refused", format!("Call::with_body {}: {:?}", case.cfg.describe(), e)),
            }
            // stop as soon as the head is complete (peek: ends with blank line)
            if out.ends_with(b"\r\n\r\n") {
                break;
            }
        }
    } else {
        let mut c = match Call::without_body(build_request(&case.cfg)) {
            Ok(c) => c,
            Err(e) => return rec.fail("C02/setup", format!("{:?}", e)),
        };
        let mut big = false;
        for (i, s) in sizes.iter().enumerate() {
            if c.is_finished() {
                break;
            }
            let size = if big || i > 380 { 8192 } else { near_line(out.len(), *s) };
            let mut buf = vec![0u8; size];
            rec.call();
            let r = c.write(&mut buf);
            attempts.push((out.len(), size, matches!(r, Err(Error::OutputOverflow))));
            match r {
                Ok(n) => {
                    out.extend_from_slice(&buf[..n]);
                    chunks.push(out.len());
                }
                Err(Error::OutputOverflow) => {
                    big = i % 5 == 4;
                }
                Err(e) => return rec.fail("C02/valid-request-refused", format!("Call::without_body {}: {:?}", case.cfg.describe(), e)),
            }
        }
        for size in [100usize, 0] {
            let mut buf = vec![0u8; size];
            rec.call();
            match c.write(&mut buf) {
                Ok(0) => {}
                Err(Error::OutputOverflow) => return rec.fail("C02/overflow-after-complete", format!("Call::without_body write(out={}) after completion -> OutputOverflow although no line is left to fit", size)),
                Err(_) => {}
                Ok(n) => return rec.fail("C02/bytes-after-complete", format!("Call::without_body emitted {} bytes after completion", n)),
            }
        }
    }
    if let Some(h) = check_head(&out, &case, &eff, rec) {
        for c in chunks {
            if c != 0 && !h.units.contains(&c) {
                return rec.fail("C02/partial-line", format!("Call API: a call ended at offset {} inside a line", c));
            }
        }
        // refused exactly when not even the next line fits
        for (off, size, refused) in attempts {
            if off >= h.len {
                continue;
            }
            let next = h.units.iter().find(|u| **u > off).copied().unwrap_or(h.len);
            let l = next - off;
            if refused && l <= size {
                return rec.fail("C02/overflow-although-line-fits", format!("Call API: write(out={}) at offset {} -> OutputOverflow but the next line is {} bytes", size, off, l));
            }
            if !refused && l > size && !h.units.contains(&off) {
                return rec.fail("C02/partial-line", format!("Call API: offset {} is inside a line", off));
            }
            rec.cov("call/overflow-checked");
        }
        rec.cov(if case.body_follows { "call/with-body" } else { "call/without-body" });
    }
}

impl Property for P {
    fn id(&self) -> &'static str {
        "C02"
    }
    fn rule(&self) -> String {
        "random absolute-URI requests (9 methods, 1.0/1.1, 0..60 original + 0..60 caller-added headers with repeated names, mixed case, empty and non-UTF-8 values, explicit/derived Host, caller or default framing, despite-method, Expect) at redirect depth 0..3. The one-shot head is parsed by an independent strict parser and compared with the model (request line, caller-added then original headers in order, exactly one Host, exactly the framing header the body writer then uses - verified by is_chunked() and one real body byte). The same request is then written twice under buffer-size schedules biased to every line length -1/0/+1: each call must emit whole lines identical to the one-shot bytes, OutputOverflow exactly when the next line does not fit, nothing after completion. An OutputOverflow after completion is a violation (no line is left that could fail to fit). A Host header spelled out on the original request, seen again after a redirect, is accepted in both readings (inherited value or derived from the new URI). Call API checked separately. class = line kind x fits/overflow x exactness, depth x body x header count.".into()
    }
    fn assumptions(&self) -> Vec<String> {
        vec![
            "for an empty path with a query both '?q' and '/?q' are accepted as request target".into(),
            "a derived Host may carry the URI port".into(),
            "header names are compared case-insensitively".into(),
            "requests are restricted to the ones C17 accepts".into(),
        ]
    }
    fn workloads(&self, tier: Tier) -> Vec<Workload> {
        vec![
            Workload::new("flow-heads", tier.pick(20_000, 5_000_000), false, "random requests through Flow, one-shot + 2 schedules each"),
            Workload::new("call-heads", tier.pick(5_000, 1_500_000), false, "random requests through the single-call API"),
        ]
    }
    fn run_case(&self, wl: &str, idx: u64, seed: u64, rec: &mut Rec) {
        let mut rng = Rng::derive(seed, wl, idx);
        if wl == "flow-heads" {
            flow_case(&mut rng, rec)
        } else {
            call_case(&mut rng, rec)
        }
    }
    fn floors(&self, _tier: Tier) -> Vec<(String, u64)> {
        [
            "unit#line/overflow/one-short", "unit#line/fits/exact", "unit#header/overflow/one-short", "unit#header/fits/exact", "unit#blank/overflow/one-short", "unit#blank/fits/exact", "unit#header/fits/last-without-blank", "call/overflow-checked",
            "depth=0/body/*", "depth=0/no-body/*", "depth=1/*", "depth=2/*", "depth=3/*", "body/chunked", "body/sized", "after-complete/*", "call/with-body", "call/without-body", "query/headers_map-between-writes",
        ]
        .iter()
        .map(|k| (k.to_string(), 20))
        .collect()
    }
}
