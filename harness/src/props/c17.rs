//! C17 — invalid requests are rejected before a single byte is emitted.
use crate::core::{Property, Rec, Tier, Workload};
use crate::drive::*;
use ureq_proto::client::call::Call;

pub struct P;

pub const VERS: [Ver; 5] = [Ver::V09, Ver::V10, Ver::V11, Ver::V2, Ver::V3];
pub const HOSTS: [&str; 5] = ["none", "one", "two-orig", "orig+added", "non-textual"];
pub const CLS: [&str; 10] = ["none", "5", "0", "5-added", "dup-orig", "dup-orig+added", "-1", "abc", "xff", "empty"];
pub const TES: [&str; 6] = ["none", "chunked", "gzip", "non-textual", "Chunked", "chunk"];
const APIS: [&str; 3] = ["flow", "call-with-body", "call-without-body"];

#[derive(PartialEq, Debug, Clone, Copy)]
enum Exp {
    Accept,
    Reject(&'static str),
    DontCare(&'static str),
}

fn model(ver: Ver, method: &str, host: &str, cl: &str, te: &str, despite: bool, api: &str) -> Exp {
    if !matches!(ver, Ver::V10 | Ver::V11) {
        return Exp::Reject("version");
    }
    if ver == Ver::V10 && !http10_method(method) {
        return Exp::Reject("method-not-in-version");
    }
    if matches!(host, "two-orig" | "orig+added") {
        return Exp::Reject("two-host");
    }
    if matches!(cl, "dup-orig" | "dup-orig+added") {
        return Exp::Reject("two-content-length");
    }
    if matches!(cl, "-1" | "abc" | "xff" | "empty") {
        return Exp::Reject("non-numeric-content-length");
    }
    let framing = matches!(cl, "5" | "0" | "5-added") || te == "chunked" || te == "Chunked";
    let takes_body = needs_body(method);
    let with_body = match api {
        "flow" => takes_body || despite,
        "call-with-body" => true,
        _ => false,
    };
    if !takes_body {
        let allowed = api == "flow" && despite;
        if (framing || api == "call-with-body") && !allowed {
            return Exp::Reject("body-on-bodyless-method");
        }
    } else if !with_body {
        if framing {
            return Exp::DontCare("without-body constructor, body-taking method, but framing headers present");
        }
        return Exp::Reject("body-method-without-body");
    }
    if host == "non-textual" {
        return Exp::DontCare("non-textual Host value");
    }
    Exp::Accept
}

pub fn build(ver: Ver, method: &'static str, host: &str, cl: &str, te: &str, despite: bool) -> ReqCfg {
    let mut c = ReqCfg::new(method, "http://h.test/p?q=1");
    c.ver = ver;
    c.despite = despite;
    match host {
        "one" => c.orig.push(("host".into(), b"x.test".to_vec())),
        "two-orig" => {
            c.orig.push(("host".into(), b"x.test".to_vec()));
            c.orig.push(("Host".into(), b"y.test".to_vec()));
        }
        "orig+added" => {
            c.orig.push(("host".into(), b"x.test".to_vec()));
            c.added.push(("host".into(), b"y.test".to_vec()));
        }
        "non-textual" => c.orig.push(("host".into(), b"x\xff.test".to_vec())),
        _ => {}
    }
    match cl {
        "5" => c.orig.push(("content-length".into(), b"5".to_vec())),
        "0" => c.orig.push(("content-length".into(), b"0".to_vec())),
        "5-added" => c.added.push(("Content-Length".into(), b"5".to_vec())),
        "dup-orig" => {
            c.orig.push(("content-length".into(), b"5".to_vec()));
            c.orig.push(("content-length".into(), b"5".to_vec()));
        }
        "dup-orig+added" => {
            c.orig.push(("content-length".into(), b"5".to_vec()));
            c.added.push(("content-length".into(), b"6".to_vec()));
        }
        "-1" => c.orig.push(("content-length".into(), b"-1".to_vec())),
        "abc" => c.orig.push(("content-length".into(), b"abc".to_vec())),
        "xff" => c.orig.push(("content-length".into(), b"\xff".to_vec())),
        "empty" => c.orig.push(("content-length".into(), b"".to_vec())),
        _ => {}
    }
    match te {
        "chunked" => c.orig.push(("transfer-encoding".into(), b"chunked".to_vec())),
        "Chunked" => c.orig.push(("Transfer-Encoding".into(), b"Chunked".to_vec())),
        "gzip" => c.orig.push(("transfer-encoding".into(), b"gzip".to_vec())),
        "chunk" => c.orig.push(("transfer-encoding".into(), b"chunk".to_vec())),
        "non-textual" => c.orig.push(("transfer-encoding".into(), b"\xfe\xff".to_vec())),
        _ => {}
    }
    c
}

/// (first attempt ok?, bytes emitted, second attempt ok?, ready afterwards, error text)
fn observe(cfg: &ReqCfg, api: &str, rec: &mut Rec) -> Result<(bool, usize, bool, bool, String), String> {
    let mut buf = vec![0u8; 4096];
    match api {
        "flow" => {
            let mut f = build_flow(cfg).map_err(|e| format!("construction failed: {:?}", e))?.proceed();
            rec.call();
            let r1 = f.write(&mut buf);
            rec.ev(|| format!("Flow<SendRequest>.write #1 -> {:?}", r1));
            let n1 = *r1.as_ref().unwrap_or(&0);
            rec.call();
            let r2 = f.write(&mut buf);
            rec.ev(|| format!("Flow<SendRequest>.write #2 -> {:?} can_proceed={}", r2, f.can_proceed()));
            Ok((r1.is_ok(), n1, r2.is_ok(), f.can_proceed(), format!("{:?}", r1.err())))
        }
        "call-with-body" => {
            // the single-call API has no prepare state: caller-added headers go into the request
            let mut c2 = cfg.clone();
            let added: Vec<_> = c2.added.drain(..).collect();
            c2.orig.extend(added);
            let mut c = Call::with_body(build_request(&c2)).map_err(|e| format!("construction failed: {:?}", e))?;
            rec.call();
            let r1 = c.write(&[], &mut buf);
            rec.ev(|| format!("Call<WithBody>.write #1 -> {:?}", r1));
            let n1 = r1.as_ref().map(|v| v.1).unwrap_or(0);
            rec.call();
            let r2 = c.write(&[], &mut buf);
            rec.ev(|| format!("Call<WithBody>.write #2 -> {:?}", r2));
            Ok((r1.is_ok(), n1, r2.is_ok(), r1.is_ok() && n1 > 0, format!("{:?}", r1.err())))
        }
        _ => {
            let mut c2 = cfg.clone();
            let added: Vec<_> = c2.added.drain(..).collect();
            c2.orig.extend(added);
            let mut c = Call::without_body(build_request(&c2)).map_err(|e| format!("construction failed: {:?}", e))?;
            rec.call();
            let r1 = c.write(&mut buf);
            rec.ev(|| format!("Call<WithoutBody>.write #1 -> {:?}", r1));
            let n1 = *r1.as_ref().unwrap_or(&0);
            rec.call();
            let r2 = c.write(&mut buf);
            let finished = c.is_finished();
            // on this API "ready to advance" is is_finished() and, which must agree with it, into_receive()
            rec.call();
            let advanced = c.into_receive().is_ok();
            rec.ev(|| format!("Call<WithoutBody>.write #2 -> {:?} is_finished={} into_receive().is_ok()={}", r2, finished, advanced));
            if advanced && !finished {
                return Err(format!("ADVANCED-UNFINISHED: into_receive() succeeded although is_finished() is false (writes: {:?}, {:?})", r1, r2));
            }
            Ok((r1.is_ok(), n1, r2.is_ok(), finished, format!("{:?}", r1.err())))
        }
    }
}

fn cell(idx: u64, rec: &mut Rec) {
    let mut x = idx as usize;
    let mut take = |n: usize| {
        let v = x % n;
        x /= n;
        v
    };
    let ver = VERS[take(5)];
    let method = METHODS[take(9)];
    let host = HOSTS[take(5)];
    let cl = CLS[take(10)];
    let te = TES[take(6)];
    let despite = take(2) == 1;
    let api = APIS[take(3)];
    if despite && api != "flow" {
        return; // the single-call API has no send-body-despite-method switch
    }
    let cfg = build(ver, method, host, cl, te, despite);
    let exp = model(ver, method, host, cl, te, despite, api);
    rec.ev(|| format!("api={} {} -> model {:?}", api, cfg.describe(), exp));
    let obs = observe(&cfg, api, rec);
    let (ok1, n1, ok2, ready, err) = match obs {
        Ok(v) => v,
        Err(e) if e.starts_with("ADVANCED-UNFINISHED") => {
            return rec.fail("C17/unwritten-request-advanced", format!("api={} {}: {}", api, cfg.describe(), e));
        }
        Err(e) => {
            // refusal at construction time is a refusal before any byte
            match exp {
                Exp::Accept => rec.fail("C17/valid-request-refused", format!("api={} {}: {}", api, cfg.describe(), e)),
                _ => rec.cov(&format!("{}/refused-at-construction", api)),
            }
            return;
        }
    };
    match exp {
        Exp::Reject(class) => {
            rec.cov(&format!("{}/reject/{}", api, class));
            if ok1 {
                return rec.fail(
                    &format!("C17/invalid-request-written/{}", class),
                    format!("api={} {}: first write returned Ok and emitted {} bytes", api, cfg.describe(), n1),
                );
            }
            if ok2 {
                return rec.fail(
                    &format!("C17/rejection-not-repeatable/{}", class),
                    format!("api={} {}: first write failed ({}), second write succeeded", api, cfg.describe(), err),
                );
            }
            if ready {
                return rec.fail(
                    &format!("C17/ready-after-rejection/{}", class),
                    format!("api={} {}: flow reports ready to advance after a refused write", api, cfg.describe()),
                );
            }
        }
        Exp::Accept => {
            rec.cov(&format!("{}/accept/{}{}", api, if needs_body(method) { "body-method" } else { "bodyless-method" }, if despite { "/despite" } else { "" }));
            if !ok1 || n1 == 0 {
                return rec.fail(
                    "C17/valid-request-refused",
                    format!("api={} {}: first write -> {} ({} bytes)", api, cfg.describe(), err, n1),
                );
            }
            if !ready && api != "call-with-body" {
                return rec.fail("C17/valid-request-not-ready", format!("api={} {}: head written with a 4 KiB buffer but not ready", api, cfg.describe()));
            }
        }
        Exp::DontCare(why) => {
            rec.cov(&format!("{}/dont-care/{}", api, why));
            // still: whatever it decides must be repeatable
            if !ok1 && ok2 {
                return rec.fail("C17/rejection-not-repeatable/dont-care", format!("api={} {}", api, cfg.describe()));
            }
        }
    }
}

/// Requests created by following a redirect are requests too: the ones outside the six classes
/// must be accepted (what the previous request carried as framing no longer counts).
fn after_redirect_cell(idx: u64, rec: &mut Rec) {
    use super::heads::*;
    use crate::wire::split_uri;
    use ureq_proto::client::flow::RedirectAuthHeaders;
    let mut x = idx as usize;
    let mut take = |n: usize| {
        let v = x % n;
        x /= n;
        v
    };
    let (method, despite) = [("POST", false), ("PUT", false), ("PATCH", false), ("GET", true), ("DELETE", true), ("GET", false), ("HEAD", false)][take(7)];
    let status = [301u16, 302, 303, 307, 308][take(5)];
    let framing = take(3); // 0 content-length on the original, 1 default chunked, 2 content-length: 0
    let policy = [RedirectAuthHeaders::Never, RedirectAuthHeaders::SameHost][take(2)];
    let hops = 1 + take(2);
    // what the caller adds to the request the last redirect created: nothing, or a framing header - on a method
    // that takes no body (all that a followed redirect leaves) and without the escape hatch that is a body on a
    // method that takes none, whatever was suppressed on the way
    let caller_framing = take(3);
    let mut cfg = ReqCfg::new(method, "http://a.test/start");
    cfg.despite = despite;
    cfg.orig.push(("cookie".into(), b"c=1".to_vec()));
    // every other cell: the Host of the first request is spelled out and the first hop leaves its authority
    let leaves = idx % 2 == 1;
    if leaves {
        cfg.orig.push(("host".into(), b"a.test".to_vec()));
    }
    let sends = needs_body(method) || despite;
    if sends {
        match framing {
            0 => cfg.orig.push(("content-length".into(), b"3".to_vec())),
            2 => cfg.orig.push(("content-length".into(), b"0".to_vec())),
            _ => {}
        }
    } else if framing != 1 {
        return;
    }
    let original = split_uri(&cfg.uri);
    let mut eff = initial_eff(&cfg);
    let mut flow = match build_flow(&cfg) {
        Ok(f) => f,
        Err(e) => return rec.fail("C17/setup", format!("{:?}", e)),
    };
    for h in 0..hops {
        let hop = Hop { status, locations: vec![if leaves && h == 0 { b"http://b.test/elsewhere".to_vec() } else { format!("/next{}", h).into_bytes() }], with_body: h == 1 };
        rec.call();
        match follow_one(flow, &cfg, &eff, &original, &hop, policy) {
            Ok(Followed::Next(f, e)) => {
                flow = f;
                eff = e;
            }
            Ok(Followed::NotFollowed) => {
                rec.cov("after-redirect/not-followed");
                return;
            }
            Ok(Followed::Error(e)) => return rec.fail("C17/setup", e),
            Err(e) => {
                // the hop request itself is one created by a redirect when h > 0
                return rec.fail(
                    if h > 0 { "C17/valid-request-refused/after-redirect" } else { "C17/setup" },
                    format!("{} {} hop {}: {}", method, status, h, e),
                );
            }
        }
    }
    if leaves && idx % 4 == 1 {
        // the inherited Host stayed behind with the first authority: a Host given to this request is its only one
        if let Err(e) = flow.header("host", "b.test") {
            return rec.fail("C17/setup", format!("{:?}", e));
        }
        rec.cov("after-redirect/own-host-on-the-new-authority");
    }
    if caller_framing != 0 {
        let (n, v) = if caller_framing == 1 { ("transfer-encoding", "chunked") } else { ("content-length", "4") };
        if let Err(e) = flow.header(n, v) {
            return rec.fail("C17/setup", format!("{:?}", e));
        }
    }
    let mut s = flow.proceed();
    let mut buf = vec![0u8; 4096];
    rec.call();
    let r1 = s.write(&mut buf);
    rec.ev(|| format!("{} (despite={}) framing={} -> {} x{} -> {} request, caller adds framing {}: first write {:?}", method, despite, framing, status, hops, eff.method, caller_framing, r1));
    if caller_framing != 0 && !needs_body(eff.method) {
        rec.cov(&format!("after-redirect/caller-framing-on-bodyless/{}", if caller_framing == 1 { "chunked" } else { "length" }));
        let r2 = s.write(&mut buf);
        return match (r1, r2) {
            (Err(_), Err(_)) if !s.can_proceed() => {}
            (a, b) => rec.fail(
                "C17/invalid-request-written/body-on-bodyless-method",
                format!("a {} request created by a redirect, to which the caller added {}: writes -> {:?}, {:?}, ready {}", eff.method, if caller_framing == 1 { "transfer-encoding: chunked" } else { "content-length: 4" }, a, b, s.can_proceed()),
            ),
        };
    }
    if let Ok(n) = &r1 {
        let hosts = buf[..*n].split(|b| *b == b'\n').filter(|l| l.len() >= 5 && l[..5].eq_ignore_ascii_case(b"host:")).count();
        if hosts != 1 {
            return rec.fail("C17/invalid-request-written/two-host", format!("the redirected request went out with {} Host lines", hosts));
        }
    }
    rec.cov(&format!("after-redirect/{}->{}", method, eff.method));
    match r1 {
        Ok(n) if n > 0 && s.can_proceed() => {}
        other => rec.fail(
            "C17/valid-request-refused/after-redirect",
            format!("{} with framing {} redirected by {} (x{}) gives a {} request outside all six classes, yet its first write -> {:?}", method, framing, status, hops, eff.method, other),
        ),
    }
}

/// Requests that carry no header at all and whose target gives no host to derive one from
/// (origin-form, `*`): none of the classes to refuse, so they are accepted - and what is written is a
/// complete head, request line and empty line.
fn no_header_cell(idx: u64, rec: &mut Rec) {
    use crate::core::{guarded, panic_sig};
    use ureq_proto::http::{Request, Version};
    let method = ["GET", "HEAD", "DELETE", "OPTIONS", "TRACE"][(idx % 5) as usize];
    let target = ["/p", "/", "/a/b?x=1", "*"][(idx / 5 % 4) as usize];
    let v10 = idx / 20 % 2 == 1 && matches!(method, "GET" | "HEAD");
    let use_call = idx / 40 % 2 == 1;
    if target == "*" && method != "OPTIONS" {
        return;
    }
    let want = format!("{} {} HTTP/1.{}\r\n\r\n", method, target, if v10 { 0 } else { 1 });
    let res = guarded(move || -> Result<(Vec<u8>, bool), String> {
        let req = Request::builder().method(method).uri(target).version(if v10 { Version::HTTP_10 } else { Version::HTTP_11 }).body(()).unwrap();
        let mut out = vec![0u8; 256];
        if use_call {
            let mut c = Call::without_body(req).map_err(|e| format!("{:?}", e))?;
            let n = c.write(&mut out).map_err(|e| format!("write: {:?}", e))?;
            Ok((out[..n].to_vec(), c.is_finished()))
        } else {
            let mut f = ureq_proto::client::flow::Flow::new(req).map_err(|e| format!("{:?}", e))?.proceed();
            let n = f.write(&mut out).map_err(|e| format!("write: {:?}", e))?;
            Ok((out[..n].to_vec(), f.can_proceed()))
        }
    });
    rec.call();
    let api = if use_call { "call-without-body" } else { "flow" };
    match res {
        Err((l, m)) => rec.fail(&format!("C17/{}", panic_sig(&l, &m)), format!("{} {} without any header ({}): panic {} at {}", method, target, api, m, l)),
        Ok(Err(e)) => rec.fail("C17/valid-request-refused/no-header-request", format!("{} {} HTTP/1.{} without any header ({}): {}", method, target, if v10 { 0 } else { 1 }, api, e)),
        Ok(Ok((bytes, ready))) => {
            if bytes != want.as_bytes() || !ready {
                return rec.fail(
                    "C17/no-header-request-not-written-whole",
                    format!("{} {} without any header ({}): wrote {:?} ready={}, a complete head is {:?}", method, target, api, crate::json::esc(&bytes), ready, want),
                );
            }
            rec.cov(&format!("{}/accept/no-header-request", api));
        }
    }
}

impl Property for P {
    fn id(&self) -> &'static str {
        "C17"
    }
    fn rule(&self) -> String {
        "exhaustive product: 5 versions x 9 methods x 5 Host shapes x 10 Content-Length shapes (valid, zero, caller-added, duplicate orig/orig and orig/added, negative, non-numeric, non-UTF-8, empty) x 6 Transfer-Encoding shapes x despite on/off x {Flow, Call::with_body, Call::without_body}. Each cell is written twice with a 4 KiB buffer and compared with the six-class model of the statement (reject: Err twice, never ready; accept: Ok with bytes, ready). class = api x model class. after-redirect x3: a transfer-encoding: chunked or content-length added by the caller to the body-less request a redirect created must be refused.".into()
    }
    fn assumptions(&self) -> Vec<String> {
        vec![
            "don't-care cells (either outcome accepted, only repeatability checked): non-textual Host; Call::without_body on a body-taking method that carries framing headers".into(),
            "Transfer-Encoding values other than exactly 'chunked' are not framing headers".into(),
            "the single-call API has no despite switch and no prepare state (caller-added headers are merged into the request there)".into(),
        ]
    }
    fn workloads(&self, _tier: Tier) -> Vec<Workload> {
        vec![
            Workload::new("table", 5 * 9 * 5 * 10 * 6 * 2 * 3, true, "the full product (cells with despite on a Call API are skipped)"),
            Workload::new("no-header-requests", 80, true, "body-less methods x origin-form / asterisk targets x 1.0/1.1 x both APIs, no header at all"),
            Workload::new("after-redirect", 7 * 5 * 3 * 2 * 2 * 3, true, "requests created by following 1..2 redirects from requests that carried framing headers: all valid, all must be accepted"),
        ]
    }
    fn run_case(&self, wl: &str, idx: u64, _seed: u64, rec: &mut Rec) {
        if wl == "after-redirect" {
            after_redirect_cell(idx, rec)
        } else if wl == "no-header-requests" {
            no_header_cell(idx, rec)
        } else {
            cell(idx, rec)
        }
    }
    fn floors(&self, _tier: Tier) -> Vec<(String, u64)> {
        vec![
            ("flow/reject/version".into(), 100),
            ("flow/reject/method-not-in-version".into(), 100),
            ("flow/reject/two-host".into(), 100),
            ("flow/reject/two-content-length".into(), 100),
            ("flow/reject/non-numeric-content-length".into(), 100),
            ("flow/reject/body-on-bodyless-method".into(), 100),
            ("call-without-body/reject/body-method-without-body".into(), 10),
            ("call-with-body/reject/body-on-bodyless-method".into(), 10),
            ("flow/accept/*".into(), 100),
            ("call-with-body/accept/*".into(), 10),
            ("call-without-body/accept/*".into(), 10),
            ("after-redirect/POST->GET".into(), 10),
            ("flow/accept/no-header-request".into(), 10),
            ("call-without-body/accept/no-header-request".into(), 10),
            ("after-redirect/GET->GET".into(), 10),
        ]
    }
}
