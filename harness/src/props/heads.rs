//! Shared by C02 / C13 / C14 / C16: following redirect hops with big buffers and the
//! model of what the next request inherits.
use crate::drive::*;
use crate::wire::*;
use ureq_proto::client::flow::state::Prepare;
use ureq_proto::client::flow::RedirectAuthHeaders;
use ureq_proto::http::Request;

#[derive(Clone, Debug)]
pub struct Hop {
    pub status: u16,
    /// Location values in field order (the last one counts)
    pub locations: Vec<Vec<u8>>,
    pub with_body: bool,
}

#[derive(Clone, Debug)]
pub struct Eff {
    pub method: &'static str,
    /// effective URI as the model computes it (RFC 3986 resolution), normalised
    pub uri: UriRef,
    /// headers inherited from the original request, in the order the original request iterates
    pub inherited: Vec<(String, Vec<u8>)>,
    pub depth: usize,
    pub auth_kept: bool,
}

pub fn orig_in_map_order(cfg: &ReqCfg) -> Vec<(String, Vec<u8>)> {
    let req: Request<()> = build_request(cfg);
    req.headers()
        .iter()
        .map(|(n, v)| (n.as_str().to_string(), v.as_bytes().to_vec()))
        .collect()
}

pub fn scheme_of(u: &UriRef) -> String {
    u.scheme.clone().unwrap_or_default().to_ascii_lowercase()
}

/// The credential rule of C13.
pub fn may_keep_auth(policy: RedirectAuthHeaders, original: &UriRef, target: &UriRef) -> bool {
    match policy {
        RedirectAuthHeaders::SameHost => {
            host_of(original) == host_of(target) && (scheme_of(original) == scheme_of(target) || scheme_of(target) == "https")
        }
        _ => false,
    }
}

pub fn redirect_response(hop: &Hop) -> Vec<u8> {
    let mut h = RespHead::new(false, hop.status);
    h.fields.push(Field::new("Server", b"t"));
    for l in &hop.locations {
        h.fields.push(Field::new("Location", l));
    }
    let mut v;
    if hop.with_body {
        h.fields.push(Field::new("Content-Length", b"4"));
        v = h.render();
        v.extend_from_slice(b"body");
    } else {
        h.fields.push(Field::new("Content-Length", b"0"));
        v = h.render();
    }
    v
}

pub enum Followed {
    /// a flow for the next request and the model's view of it
    Next(F<Prepare>, Eff),
    /// the table says the redirect is not followed
    NotFollowed,
    /// as_new_flow returned an error
    Error(String),
}

/// Drive `flow` (request described by `eff`/`cfg`) through one redirect response and follow it.
/// `original` is the URI of the very first request of the chain.
pub fn follow_one(
    flow: F<Prepare>,
    cfg: &ReqCfg,
    eff: &Eff,
    original: &UriRef,
    hop: &Hop,
    policy: RedirectAuthHeaders,
) -> Result<Followed, String> {
    let mut f = flow.proceed();
    write_head_big(&mut f).map_err(|e| format!("hop head: {:?}", e))?;
    let body: Vec<u8> = if needs_body(eff.method) {
        match cfg.declared_len() {
            Some(n) if eff.depth == 0 => vec![b'x'; n as usize],
            _ => vec![],
        }
    } else {
        vec![]
    };
    let rr = to_recv_response(f, &body)?;
    let stream = redirect_response(hop);
    let (end, _obs, consumed, _b) = fast_response(rr, &stream)?;
    if consumed != stream.len() && eff.method != "HEAD" {
        return Err(format!("hop response: consumed {} of {}", consumed, stream.len()));
    }
    let mut r = match end {
        End::Redirect(r) => r,
        End::Cleanup(_) => return Err("hop response did not lead to the redirect state".into()),
    };
    let nf = r.as_new_flow(policy);
    let new_method = redirect_method(eff.method, hop.status);
    match nf {
        Err(e) => Ok(Followed::Error(format!("{:?}", e))),
        Ok(None) => Ok(Followed::NotFollowed),
        Ok(Some(nf)) => {
            let loc = hop.locations.last().cloned().unwrap_or_default();
            let loc_s = String::from_utf8_lossy(&loc).to_string();
            let target = resolve(&eff.uri, &split_uri(&loc_s));
            let keep = may_keep_auth(policy, original, &target);
            let inherited: Vec<(String, Vec<u8>)> = orig_in_map_order(cfg)
                .into_iter()
                .filter(|(n, _)| n != "cookie" && n != "content-length" && (keep || n != "authorization"))
                .collect();
            Ok(Followed::Next(
                nf,
                Eff {
                    method: new_method.unwrap_or("?"),
                    uri: UriRef { fragment: None, ..target },
                    inherited,
                    depth: eff.depth + 1,
                    auth_kept: keep,
                },
            ))
        }
    }
}

pub fn initial_eff(cfg: &ReqCfg) -> Eff {
    Eff {
        method: cfg.method,
        uri: split_uri(&cfg.uri),
        inherited: orig_in_map_order(cfg),
        depth: 0,
        auth_kept: true,
    }
}
