//! Shared by C02 / C13 / C14 / C16: following redirect hops with big buffers and the
//! model of what the next request inherits.
use crate::drive::*;
use crate::wire::*;
use ureq_proto::client::flow::state::Prepare;
use ureq_proto::client::flow::RedirectAuthHeaders;
use ureq_proto::http::Request;

#[derive(Clone, Debug)]
pub struct Hop {
    pub status: u16,
    /// Location values in field order (the last one counts)
    pub locations: Vec<Vec<u8>>,
    pub with_body: bool,
}

#[derive(Clone, Debug)]
pub struct Eff {
    pub method: &'static str,
    /// effective URI as the model computes it (RFC 3986 resolution), normalised
    pub uri: UriRef,
    /// headers inherited from the original request, in the order the original request iterates
    pub inherited: Vec<(String, Vec<u8>)>,
    pub depth: usize,
    pub auth_kept: bool,
}

pub fn orig_in_map_order(cfg: &ReqCfg) -> Vec<(String, Vec<u8>)> {
    let req: Request<()> = build_request(cfg);
    req.headers()
        .iter()
        .map(|(n, v)| (n.as_str().to_string(), v.as_bytes().to_vec()))
        .collect()
}

pub fn scheme_of(u: &UriRef) -> String {
    u.scheme.clone().unwrap_or_default().to_ascii_lowercase()
}

/// The credential rule of C13.
pub fn may_keep_auth(policy: RedirectAuthHeaders, original: &UriRef, target: &UriRef) -> bool {
    match policy {
        RedirectAuthHeaders::SameHost => {
            host_of(original) == host_of(target) && (scheme_of(original) == scheme_of(target) || scheme_of(target) == "https")
        }
        _ => false,
    }
}

pub fn redirect_response(hop: &Hop) -> Vec<u8> {
    let mut h = RespHead::new(false, hop.status);
    h.fields.push(Field::new("Server", b"t"));
    // (with several Location fields, every other response says Connection: close in front of them and carries
    // some other field between them: neither has a say in which Location counts)
    let mixed = hop.locations.len() > 1 && hop.locations[0].len() % 2 == 0;
    if mixed {
        h.fields.push(Field::new("Connection", b"close"));
    }
    for (i, l) in hop.locations.iter().enumerate() {
        if mixed && i == 1 {
            h.fields.push(Field::new("Vary", b"*"));
        }
        h.fields.push(Field::new("Location", l));
    }
    let mut v;
    if hop.with_body {
        h.fields.push(Field::new("Content-Length", b"4"));
        v = h.render();
        v.extend_from_slice(b"body");
    } else {
        h.fields.push(Field::new("Content-Length", b"0"));
        v = h.render();
    }
    v
}

pub enum Followed {
    /// a flow for the next request and the model's view of it
    Next(F<Prepare>, Eff),
    /// the table says the redirect is not followed
    NotFollowed,
    /// as_new_flow returned an error
    Error(String),
}

/// Drive `flow` (request described by `eff`/`cfg`) through one redirect response and follow it.
/// `original` is the URI of the very first request of the chain.
pub fn follow_one(
    flow: F<Prepare>,
    cfg: &ReqCfg,
    eff: &Eff,
    original: &UriRef,
    hop: &Hop,
    policy: RedirectAuthHeaders,
) -> Result<Followed, String> {
    follow_one_head(flow, cfg, eff, original, hop, policy).map(|v| v.1)
}

/// Like `follow_one`, also returning the request head bytes this hop's request put on the wire.
pub fn follow_one_head(
    flow: F<Prepare>,
    cfg: &ReqCfg,
    eff: &Eff,
    original: &UriRef,
    hop: &Hop,
    policy: RedirectAuthHeaders,
) -> Result<(Vec<u8>, Followed), String> {
    let mut f = flow.proceed();
    let head_bytes = write_head_big(&mut f).map_err(|e| format!("hop head: {:?}", e))?;
    let body: Vec<u8> = if needs_body(eff.method) || (eff.depth == 0 && cfg.despite) {
        match cfg.declared_len() {
            Some(n) if eff.depth == 0 => vec![b'x'; n as usize],
            _ => vec![],
        }
    } else {
        vec![]
    };
    let rr = to_recv_response(f, &body)?;
    let stream = redirect_response(hop);
    let (end, _obs, consumed, _b) = fast_response(rr, &stream)?;
    if consumed != stream.len() && eff.method != "HEAD" {
        return Err(format!("hop response: consumed {} of {}", consumed, stream.len()));
    }
    let mut r = match end {
        End::Redirect(r) => r,
        End::Cleanup(_) => return Err("hop response did not lead to the redirect state".into()),
    };
    let nf = r.as_new_flow(policy);
    let new_method = redirect_method(eff.method, hop.status);
    match nf {
        Err(e) => Ok((head_bytes, Followed::Error(format!("{:?}", e)))),
        Ok(None) => Ok((head_bytes, Followed::NotFollowed)),
        Ok(Some(nf)) => {
            let loc = hop.locations.last().cloned().unwrap_or_default();
            let loc_s = String::from_utf8_lossy(&loc).to_string();
            let target = resolve(&eff.uri, &split_uri(&loc_s));
            let keep = may_keep_auth(policy, original, &target);
            let inherited: Vec<(String, Vec<u8>)> = orig_in_map_order(cfg)
                .into_iter()
                .filter(|(n, _)| n != "cookie" && n != "content-length" && n != "transfer-encoding" && (keep || n != "authorization"))
                .collect();
            Ok((head_bytes, Followed::Next(
                nf,
                Eff {
                    method: new_method.unwrap_or("?"),
                    uri: UriRef { fragment: None, ..target },
                    inherited,
                    depth: eff.depth + 1,
                    auth_kept: keep,
                },
            )))
        }
    }
}

pub fn initial_eff(cfg: &ReqCfg) -> Eff {
    Eff {
        method: cfg.method,
        uri: split_uri(&cfg.uri),
        inherited: orig_in_map_order(cfg),
        depth: 0,
        auth_kept: true,
    }
}

// ------------------------------------------------------------------ clean Location generator (RFC 3986 and WHATWG agree on these)

use crate::rng::Rng;

pub const CLEAN_HOSTS: [&str; 3] = ["a.test", "b.test", "c.example"];

fn seg(rng: &mut Rng) -> String {
    let pool = ["p", "q", "dir", "x1", "a-b", "a_b", "v~1", "g.", ".g", "g..", "..g", "index.html"];
    rng.pick(&pool).to_string()
}

/// Segments of an absolute path may use everything `pchar` offers: sub-delims, ':' and '@', percent-encoded
/// octets (kept as they are: a reserved character and its encoding are not equivalent, RFC 3986 section 2.2).
fn rich_seg(rng: &mut Rng) -> String {
    let pool = ["a;v=1", "x,y", "(z)", "a+b", "k=v", "a:b", "u@h", "%41", "%2F", "%e9", "!$&*", "~t"];
    rng.pick(&pool).to_string()
}

fn clean_path(rng: &mut Rng) -> String {
    let n = rng.usize_in(0, 3);
    let mut s = String::new();
    for _ in 0..n {
        s.push('/');
        if rng.chance(1, 4) {
            s.push_str(&rich_seg(rng));
        } else {
            s.push_str(&seg(rng));
        }
    }
    if rng.chance(1, 3) || n == 0 {
        s.push('/');
    }
    s
}

fn clean_query(rng: &mut Rng) -> String {
    if rng.chance(1, 2) {
        String::new()
    } else if rng.chance(1, 4) {
        // the query is taken over as it stands: '/' and '?' are data there, so are sub-delims and encoded octets
        // (the apostrophe is left to a workload of its own in C14)
        format!("?{}", rng.pick(&["a=b&c=d", "q=%20x", "next=/y?z", "p=a+b", "k=;:@!$()*,", "e=%C3%A9&f=%c3%a9", "=", "&&", "via=mail,https://c.test/x", "u=a,http://b.test/p?q,//c.example/"]))
    } else {
        format!("?{}={}", rng.pick(&["a", "k", "page"]), rng.below(50))
    }
}

/// A Location reference drawn from the kinds of the quantifier. Returns (kind, reference).
pub fn clean_location(rng: &mut Rng, original: &UriRef) -> (&'static str, String) {
    let frag = if rng.chance(1, 5) { "#frag" } else { "" };
    let port = |rng: &mut Rng, scheme: &str| -> String {
        match rng.below(6) {
            0 => ":8080".to_string(),
            1 => if scheme == "https" { ":443".to_string() } else { ":80".to_string() },
            _ => String::new(),
        }
    };
    let (kind, s) = match rng.below(12) {
        0 => {
            // absolute, original host, same scheme
            let sc = scheme_of(original);
            ("abs-original-host-same-scheme", format!("{}://{}{}{}{}", sc, host_of(original), port(rng, &sc), clean_path(rng), clean_query(rng)))
        }
        1 => {
            let sc = if scheme_of(original) == "http" { "https" } else { "http" };
            ("abs-original-host-other-scheme", format!("{}://{}{}{}", sc, host_of(original), clean_path(rng), clean_query(rng)))
        }
        2 if rng.chance(1, 2) => {
            // a host that merely starts with the original host, or is a prefix of it
            let sc = scheme_of(original);
            let oh = host_of(original);
            let h = match rng.below(5) {
                0 => format!("{}.evil.example", oh),
                1 => format!("{}ing", oh),
                2 => format!("{}-cdn.example", oh),
                // the fully qualified spelling is another host string: "equals" is what the statement says
                3 => format!("{}.", oh),
                _ => oh[..oh.len() - 1].to_string(),
            };
            ("abs-host-in-prefix-relation", format!("{}://{}{}{}", sc, h, clean_path(rng), clean_query(rng)))
        }
        2 | 3 => {
            let sc = *rng.pick(&["http", "https"]);
            let h = *rng.pick(&CLEAN_HOSTS);
            ("abs-any-host", format!("{}://{}{}{}{}", sc, h, port(rng, sc), clean_path(rng), clean_query(rng)))
        }
        4 => {
            let h = *rng.pick(&CLEAN_HOSTS);
            ("scheme-relative", format!("//{}{}{}", h, clean_path(rng), clean_query(rng)))
        }
        5 => ("path-absolute", format!("{}{}", clean_path(rng), clean_query(rng))),
        6 => {
            // path-absolute with dot segments: remove_dot_segments applies to these too (RFC 3986 5.2.2)
            let mut s = String::new();
            for _ in 0..rng.usize_in(1, 4) {
                s.push('/');
                s.push_str(*rng.pick(&["..", ".", "a", "b", "..", "c.d"]));
            }
            if rng.chance(1, 3) {
                s.push('/');
            }
            ("path-absolute-dots", format!("{}{}", s, clean_query(rng)))
        }
        7 => {
            let mut s = String::new();
            for _ in 0..rng.usize_in(0, 3) {
                s.push_str(*rng.pick(&["../", "./", "../", "d/"]));
            }
            s.push_str(&seg(rng));
            if rng.chance(1, 3) {
                s.push('/');
            }
            ("path-relative-dots", format!("{}{}", s, clean_query(rng)))
        }
        8 => ("path-relative", format!("{}/{}{}", seg(rng), seg(rng), clean_query(rng))),
        9 => {
            if rng.chance(1, 4) {
                // an empty query is still a query: "/p?" and "?" keep their question mark
                if rng.chance(1, 2) {
                    ("empty-query", format!("{}?", clean_path(rng)))
                } else {
                    ("empty-query", "?".to_string())
                }
            } else {
                ("query-only", format!("?z={}", rng.below(100)))
            }
        }
        10 => ("empty", String::new()),
        _ => {
            let h = *rng.pick(&CLEAN_HOSTS);
            ("abs-empty-path", format!("{}://{}", *rng.pick(&["http", "https"]), h))
        }
    };
    (kind, format!("{}{}", s, frag))
}

pub fn clean_start_uri(rng: &mut Rng) -> String {
    let sc = *rng.pick(&["http", "https"]);
    let h = *rng.pick(&CLEAN_HOSTS);
    let port = match rng.below(5) {
        0 => ":8080",
        _ => "",
    };
    let path = match rng.below(4) {
        0 => String::new(),
        _ => clean_path(rng),
    };
    format!("{}://{}{}{}{}", sc, h, port, path, clean_query(rng))
}

pub const REDIRECT_STATUSES: [u16; 10] = [300, 301, 302, 303, 305, 306, 307, 308, 310, 399];
