//! C11 — Expect: 100-continue handshake: the body is sent iff the server did not refuse.
use super::c01::check_against_truth;
use crate::core::{Property, Rec, Tier, Workload};
use crate::drive::*;
use crate::json::esc_short;
use crate::model::*;
use crate::rng::Rng;
use crate::wire::*;

pub struct P;

/// The refusal seen while awaiting 100 is a redirect: "in every branch the flow that results is usable to
/// completion" - here that is the receive state, the redirect state behind it, and the request the redirect
/// leads to, which inherits the Expect header with or without a body of its own.
fn refused_by_redirect_case(idx: u64, rec: &mut Rec) {
    use crate::core::{guarded, panic_sig};
    use ureq_proto::client::flow::{Await100Result, RedirectAuthHeaders, SendRequestResult};
    let status = [301u16, 302, 303, 307, 308][(idx % 5) as usize];
    let loc: &[u8] = [&b"/moved"[..], b"http://other.test/moved", b"https://h.test/moved", b"//other.test:8080/x"][(idx / 5 % 4) as usize];
    let shape = idx / 20 % 4;
    let policy = if idx / 80 % 2 == 0 { RedirectAuthHeaders::Never } else { RedirectAuthHeaders::SameHost };
    let method = ["POST", "PUT"][(idx / 160 % 2) as usize];
    let mut cfg = ReqCfg::new(method, "http://h.test/up").h("expect", b"100-continue").h("content-length", b"5");
    if shape & 1 != 0 {
        cfg.orig.push(("authorization".into(), b"Basic abc".to_vec()));
        cfg.orig.push(("cookie".into(), b"a=b".to_vec()));
    }
    if shape & 2 != 0 {
        cfg.orig.push(("host".into(), b"h.test".to_vec()));
    }
    let mut refusal = format!("HTTP/1.1 {} Moved\r\nLocation: ", status).into_bytes();
    refusal.extend_from_slice(loc);
    refusal.extend_from_slice(b"\r\nContent-Length: 0\r\n\r\n");
    let res = guarded(|| -> Result<&'static str, String> {
        let mut f = build_flow(&cfg).map_err(|e| format!("{:?}", e))?.proceed();
        write_head_big(&mut f).map_err(|e| format!("head: {:?}", e))?;
        let mut a = match f.proceed().map_err(|e| format!("{:?}", e))?.ok_or("SendRequest::proceed None")? {
            SendRequestResult::Await100(a) => a,
            _ => return Err("a request with Expect and a body did not await 100".into()),
        };
        let n = a.try_read_100(&refusal).map_err(|e| format!("try_read_100: {:?}", e))?;
        if n != 0 || a.can_keep_await_100() {
            return Err(format!("the complete refusal: consumed {}, still awaiting {}", n, a.can_keep_await_100()));
        }
        let r = match a.proceed().map_err(|e| format!("{:?}", e))? {
            Await100Result::RecvResponse(r) => r,
            Await100Result::SendBody(_) => return Err("the body is asked for although the server refused".into()),
        };
        let (end, obs, consumed, _) = fast_response(r, &refusal)?;
        if obs.status != status || consumed != refusal.len() {
            return Err(format!("the refusal was received as status {} with {} of {} bytes consumed", obs.status, consumed, refusal.len()));
        }
        let mut red = match end {
            End::Redirect(r) => r,
            End::Cleanup(_) => return Err("a 3xx refusal with a Location did not reach the redirect state".into()),
        };
        if !red.must_close_connection() {
            return Err("the connection is offered for reuse after a refusal".into());
        }
        let nf = match red.as_new_flow(policy).map_err(|e| format!("as_new_flow: {:?}", e))? {
            Some(nf) => nf,
            None => return Ok("not-followed"),
        };
        // the request the redirect leads to, to the end: with the method kept (307/308) it has a body and awaits
        // 100 again, otherwise it is a GET that merely inherits the header
        let keeps_body = matches!(status, 307 | 308);
        let mut s = nf.proceed();
        let head = write_head_big(&mut s).map_err(|e| format!("head of the redirected request: {:?}", e))?;
        if parse_request_head_strict(&head).is_err() {
            return Err("the redirected request head is not well-formed".into());
        }
        let rr = to_recv_response(s, if keeps_body { b"hello" } else { b"" })?;
        let (end, obs, _, _) = fast_response(rr, b"HTTP/1.1 200 OK\r\nContent-Length: 2\r\n\r\nok")?;
        match end {
            End::Cleanup(_) if obs.status == 200 => Ok(if keeps_body { "followed-with-body" } else { "followed-without-body" }),
            _ => Err("the redirected exchange did not end in cleanup".into()),
        }
    });
    rec.call();
    rec.ev(|| format!("{} with Expect (shape {}) refused by {} Location {:?}, policy {:?} -> {:?}", method, shape, status, esc_short(loc, 60), policy, res));
    match res {
        Err((l, m)) => rec.fail(&format!("C11/{}", panic_sig(&l, &m)), format!("refusal {} Location {:?}: panic {} at {}", status, esc_short(loc, 60), m, l)),
        Ok(Err(e)) => rec.fail("C11/refused-by-redirect-not-usable", format!("{} refused by {} Location {:?} (shape {}): {}", method, status, esc_short(loc, 60), shape, e)),
        Ok(Ok(k)) => rec.cov(&format!("refused-by-redirect/{}", k)),
    }
}

#[derive(Clone, Copy, Debug, PartialEq, Eq)]
enum Branch {
    /// look until decided
    Decide,
    /// look once at this prefix of the first head, then give up
    GiveUpAt(usize),
}

fn interim_reason(rng: &mut Rng) -> &'static str {
    *rng.pick(&["Continue", "", "continue please", "C", "Go \t on", "100", "Continue with a rather long reason phrase that goes on"])
}

fn case(rng: &mut Rng, idx: u64, rec: &mut Rec) {
    // request
    let method = *rng.pick(&["POST", "PUT", "PATCH", "POST", "GET", "DELETE"]);
    let mut cfg = ReqCfg::new(method, "http://h.test/upload");
    if !needs_body(method) {
        // a body forced onto a body-less method: the handshake must work the same
        cfg.despite = true;
        cfg.despite_twice = rng.chance(1, 4);
    }
    if method == "POST" && rng.chance(1, 3) {
        cfg.ver = Ver::V10;
    }
    let body_len = *rng.pick(&[0usize, 1, 11, 300, 11_000]);
    let req_body = payload(body_len, (idx % 100) as u8);
    if rng.chance(1, 2) {
        cfg.orig.push(("content-length".into(), body_len.to_string().into_bytes()));
    }
    if rng.chance(1, 8) {
        // the field on two lines, another expectation first (Expect is a list: the 100-continue member counts)
        cfg.orig.push(("expect".into(), b"x-other".to_vec()));
        rec.cov("request/expect-on-two-lines");
    }
    cfg.orig.push(("expect".into(), b"100-continue".to_vec()));
    if rng.chance(1, 6) {
        cfg.orig.push(("connection".into(), b"close".to_vec()));
    }
    // one case in six: the flow is the product of a redirect. A POST carrying the same headers was
    // answered 303; the GET that follows inherits the Expect header (not the content-length), the
    // caller forces a body onto it, and the handshake must work as on any other flow.
    let via_redirect = rng.chance(1, 6);
    let mut first_hop = None;
    if via_redirect {
        let mut c1 = ReqCfg::new("POST", "http://h.test/first");
        c1.ver = cfg.ver;
        c1.orig = cfg.orig.clone();
        first_hop = Some(c1);
        cfg.method = "GET";
        cfg.despite = true;
        cfg.despite_twice = false;
        cfg.orig.retain(|(n, _)| n != "content-length");
    }
    // the first head the server sends
    let first_is_100 = idx % 2 == 0;
    let reason = interim_reason(rng);
    let (mut head, body, close_data) = random_response(rng, 400, true, "r");
    if !first_is_100 && rng.chance(1, 3) {
        // bare refusal: status line only
        head.fields.clear();
    }
    let bare_final = head.fields.is_empty();
    let first_len = if first_is_100 { format!("HTTP/1.1 100 {}\r\n\r\n", reason).len() } else { 0 };
    let mut ex = Exchange {
        cfg,
        req_body,
        handshake: Handshake::None,
        interim_reason: reason,
        head,
        body: if bare_final { BodyPlan::Bare } else { body },
        close_data,
        extra_interim: 0,
        unsolicited_100: 0,
    };
    // length of the status line (through CRLF) of the first head on the wire
    let status_line_len = if first_is_100 {
        first_len - 2
    } else {
        let r = ex.head.render();
        r.windows(2).position(|w| w == b"\r\n").unwrap() + 2
    };
    let branch = match rng.below(3) {
        0 => Branch::Decide,
        _ => Branch::GiveUpAt(rng.usize_in(0, status_line_len)),
    };
    ex.handshake = match (first_is_100, branch) {
        (true, Branch::Decide) => Handshake::Got100,
        (true, Branch::GiveUpAt(_)) => Handshake::Late100(1),
        (false, Branch::Decide) => Handshake::Refused,
        (false, Branch::GiveUpAt(_)) => Handshake::GiveUp(1),
    };
    if matches!(ex.handshake, Handshake::Late100(_)) && rng.chance(1, 3) {
        // the server repeats its 100: only one of them is the late one that gets skipped
        ex.extra_interim = 1;
    }
    let (stream, mut truth) = match ex.render() {
        Some(v) => v,
        None => return,
    };
    let full_first_len = if first_is_100 { first_len } else { truth.head_len };
    let mut sched = Sched::random(rng, true);
    let look_at = match branch {
        Branch::GiveUpAt(p) => {
            truth.scen = Scen::GiveUpAt(p);
            sched.cuts = vec![p.max(1)];
            if p == 0 {
                truth.scen = Scen::GiveUpNoData(1);
            }
            p
        }
        Branch::Decide => {
            // look at one chosen prefix first, then at whatever arrives
            let p = rng.usize_in(1, stream.len());
            sched.cuts = vec![p];
            if sched.await_by_return && rng.chance(1, 2) {
                // a caller that goes by the return value ("Ok(0): continue waiting") while the rest of the
                // first head trickles in: it looks again and again at a decision already made
                let upto = (full_first_len + 8).min(stream.len());
                let step = rng.usize_in(1, 3);
                sched.cuts.extend((p + 1..upto).step_by(step));
                rec.cov("caller-goes-by-return-value/trickle");
            }
            p
        }
    };
    let full_first = if first_is_100 { first_len } else { truth.head_len };
    rec.ev(|| format!("request: {} body={}B", ex.cfg.describe(), ex.req_body.len()));
    rec.ev(|| format!("server: {:?}", esc_short(&stream, 160)));
    rec.ev(|| format!("first head is {} ({} bytes, status line {} bytes); caller: {:?}, first look at prefix {}", if first_is_100 { "100" } else if bare_final { "bare final" } else { "final with fields" }, full_first, status_line_len, branch, look_at));
    let flow = match &first_hop {
        None => match build_flow(&ex.cfg) {
            Ok(f) => f,
            Err(e) => return rec.fail("C11/setup", format!("{:?}", e)),
        },
        Some(c1) => {
            rec.cov("flow-produced-by-a-redirect");
            let made = fast_to_recv(c1).and_then(|f| fast_response(f, b"HTTP/1.1 303 See Other\r\nLocation: /upload\r\nContent-Length: 0\r\n\r\n")).and_then(|(end, ..)| match end {
                End::Redirect(mut r) => match r.as_new_flow(ureq_proto::client::flow::RedirectAuthHeaders::Never) {
                    Ok(Some(mut nf)) => apply_prepare(&mut nf, &ex.cfg).map(|_| nf).map_err(|e| format!("{:?}", e)),
                    other => Err(format!("as_new_flow: {:?}", other.map(|o| o.is_some()))),
                },
                End::Cleanup(_) => Err("303 did not reach the redirect state".into()),
            });
            match made {
                Ok(f) => f,
                Err(e) => return rec.fail("C11/setup-through-redirect", e),
            }
        }
    };
    let mut d = Driver::new(flow, &ex.cfg, &ex.req_body, &stream, truth.scen, sched);
    let end = d.run(rec);
    // ---- every look while awaiting, against the handshake model
    for (i, (wlen, consumed, keep)) in d.await_log.iter().enumerate() {
        let class = if *wlen == 0 {
            "empty"
        } else if *wlen < status_line_len {
            "inside-status-line"
        } else if *wlen == status_line_len {
            "right-after-status-line"
        } else if *wlen < full_first {
            "inside-rest-of-head"
        } else {
            "complete-head"
        };
        rec.cov(&format!("look/{}/{}", if first_is_100 { "100" } else if bare_final { "bare-final" } else { "final-with-fields" }, class));
        if *wlen <= status_line_len {
            if *consumed != 0 || !*keep {
                return rec.fail(
                    "C11/decided-on-incomplete-status-line",
                    format!("look #{} at {} bytes ({}): consumed {} can_keep_await_100={}", i, wlen, class, consumed, keep),
                );
            }
        } else if first_is_100 {
            if *wlen >= full_first {
                if *consumed != full_first || *keep {
                    return rec.fail(
                        "C11/bare-100-not-consumed-exactly",
                        format!("look #{} at {} bytes with a complete {}-byte 100: consumed {} keep={}", i, wlen, full_first, consumed, keep),
                    );
                }
            } else if *consumed != 0 {
                return rec.fail("C11/consumed-incomplete-100", format!("look #{} at {} of {} bytes consumed {}", i, wlen, full_first, consumed));
            }
        } else {
            if *consumed != 0 {
                return rec.fail("C11/consumed-non-100", format!("look #{} at {} bytes of a {} response consumed {}", i, wlen, ex.head.status, consumed));
            }
            if *wlen >= full_first && *keep {
                return rec.fail("C11/complete-refusal-not-decided", format!("look #{} saw the complete {}-byte response head and still waits", i, full_first));
            }
        }
    }
    if end != Step::Done {
        return rec.fail("C11/branch-not-usable-to-completion", format!("{:?}; {}", end, d.summary()));
    }
    // ---- which way the flow went
    let after_await = d.path.iter().position(|s| *s == "Await100").map(|i| d.path[i + 1]);
    let want_after = if ex.handshake == Handshake::Refused { "RecvResponse" } else { "SendBody" };
    rec.cov(&format!("branch/{:?}/{}", ex.handshake, want_after).replace("(1)", ""));
    if after_await != Some(want_after) {
        return rec.fail(
            &format!("C11/wrong-edge-out-of-await/{}", want_after),
            format!("handshake {:?}: expected Await100 -> {}, flow went {:?}", ex.handshake, want_after, d.path),
        );
    }
    if ex.extra_interim > 0 {
        rec.cov("late-100-twice");
        let handed_out = d.response_log.iter().filter(|(_, _, r)| *r == Some(100)).count();
        if d.late_skips != 1 || handed_out != ex.extra_interim {
            return rec.fail(
                "C11/late-100-not-skipped-once",
                format!("two 100 responses arrived after the body: {} were skipped silently and {} handed out (exactly one must be skipped): {:?}", d.late_skips, handed_out, d.response_log),
            );
        }
    }
    if matches!(ex.handshake, Handshake::Late100(_)) {
        if d.late_skips != 1 {
            return rec.fail("C11/late-100-not-skipped-once", format!("the late 100 was skipped {} times: {:?}", d.late_skips, d.response_log));
        }
        let skip = d.response_log.iter().find(|(_, n, r)| *n > 0 && r.is_none());
        if skip.map(|s| s.1) != Some(first_len) {
            return rec.fail("C11/late-100-skip-length", format!("skipped {:?} bytes, the late 100 is {} bytes", skip.map(|s| s.1), first_len));
        }
    } else if d.late_skips != 0 {
        return rec.fail("C11/spurious-skip", format!("{} responses skipped without a late 100", d.late_skips));
    }
    // gave up while a refusal was partly visible: whether that counts as "arrived while awaiting" is left open
    let verdict_open = !first_is_100 && matches!(branch, Branch::GiveUpAt(p) if p > 0);
    if verdict_open {
        truth.must_close = d.must_close().unwrap_or(false);
    }
    check_against_truth(&d, &ex, &truth, None, "C11", rec);
}

impl Property for P {
    fn id(&self) -> &'static str {
        "C11"
    }
    fn rule(&self) -> String {
        "requests with Expect: 100-continue (POST/PUT/PATCH, 1.0/1.1, sized/chunked bodies of 0..11000 bytes) against servers whose first head is a bare 100 (seven reason phrases incl. empty) or any other response with or without fields; the caller looks first at a chosen prefix (every prefix class: empty, inside the status line, right after it, inside the rest, complete) and then either keeps looking until decided or gives up. Every look is judged by the handshake model (nothing decided or consumed up to the end of the status line; a complete bare 100 consumed exactly; anything else never consumed and decided once complete). The run continues to Cleanup under a random schedule: edge out of Await100, late-100 skipped exactly once and by exactly its length, the refusal returned by try_response as that very response, body sent iff not refused, must-close after refusal, plus all ground-truth checks of C01. One case in six runs the handshake on a flow produced by a redirect (POST with Expect answered 303, the GET that follows inherits Expect and gets a body through the escape hatch). class = first head kind x prefix class of each look, handshake branch.".into()
    }
    fn assumptions(&self) -> Vec<String> {
        vec![
            "a 100 response carrying header fields is outside the statement (bare 100 vs other responses) and is not generated".into(),
            "giving up while a refusal is only partly visible: the reuse verdict is left open (C10 says 'arrived'), everything else is checked".into(),
            "between the end of the status line and the end of the head either 'decided' or 'undecided' is accepted, consumption must be 0".into(),
        ]
    }
    fn workloads(&self, tier: Tier) -> Vec<Workload> {
        vec![
            Workload::new("handshakes", tier.pick(12_000, 2_000_000), false, "random handshake scenarios"),
            Workload::new("refused-by-redirect", 5 * 4 * 4 * 2 * 2, true, "the refusal is a 3xx with a Location (same / other authority) x request shapes (authorization, cookie, explicit Host) x policy x POST/PUT: receive it, follow it, run the request it leads to to the end"),
        ]
    }
    fn run_case(&self, wl: &str, idx: u64, seed: u64, rec: &mut Rec) {
        if wl == "refused-by-redirect" {
            return refused_by_redirect_case(idx, rec);
        }
        let mut rng = Rng::derive(seed, wl, idx);
        case(&mut rng, idx, rec)
    }
    fn floors(&self, _tier: Tier) -> Vec<(String, u64)> {
        let mut v = vec![];
        for k in ["100", "bare-final", "final-with-fields"] {
            for c in ["inside-status-line", "right-after-status-line", "complete-head"] {
                v.push((format!("look/{}/{}", k, c), 10));
            }
        }
        v.push(("look/final-with-fields/inside-rest-of-head".into(), 10));
        v.push(("late-100-twice".into(), 50));
        v.push(("flow-produced-by-a-redirect".into(), 100));
        v.push(("request/expect-on-two-lines".into(), 100));
        v.push(("refused-by-redirect/not-followed".into(), 20));
        v.push(("refused-by-redirect/followed-without-body".into(), 20));
        v.push(("caller-goes-by-return-value/trickle".into(), 100));
        for b in ["branch/Got100/SendBody", "branch/Late100/SendBody", "branch/GiveUp/SendBody", "branch/Refused/RecvResponse"] {
            v.push((b.to_string(), 100));
        }
        v
    }
}
