//! C19 — sending a body always makes progress when progress is possible.
use crate::core::{Property, Rec, Tier, Workload};
use crate::drive::{body_sender, BodySender};
use crate::hookmon;
use crate::rng::Rng;

pub struct P;

fn one_write(l: usize, n: usize, src: &[u8], rec: &mut Rec) -> Option<(usize, usize)> {
    let mut s = match body_sender(None, false, false) {
        Ok(s) => s,
        Err(e) => {
            rec.fail("C19/setup", e);
            return None;
        }
    };
    let mut buf = vec![0u8; n];
    if (l + n) % 3 == 0 {
        // the caller asked about some other buffer first: an answer is not an order
        if let BodySender::Flow(f) = &mut s {
            let _ = f.calculate_max_input(if l % 2 == 0 { 20 } else { n / 2 });
        }
    }
    rec.call();
    hookmon::arm(4 * (l as u64 + n as u64) + 64);
    let r = s.write(&src[..l], &mut buf);
    hookmon::disarm();
    match r {
        Ok(v) => Some(v),
        Err(e) => {
            rec.fail("C19/write-error", format!("chunked write(in={}, out={}) -> Err({:?})", l, n, e));
            None
        }
    }
}

fn max_input(n: usize) -> usize {
    match body_sender(None, false, false) {
        Ok(BodySender::Flow(mut f)) => f.calculate_max_input(n),
        _ => 0,
    }
}

/// All L in `ls` (ascending) for one buffer size n.
fn sweep_n(n: usize, ls: &[usize], rec: &mut Rec) {
    let maxl = *ls.last().unwrap();
    let src = crate::wire::payload(maxl, (n % 100) as u8);
    let m = max_input(n);
    let base = if m > 0 { one_write(m.min(maxl), n, &src, rec).map(|v| v.0) } else { Some(0) };
    let mut prev: Option<(usize, usize)> = None; // (L, consumed)
    for &l in ls {
        let (c, p) = match one_write(l, n, &src, rec) {
            Some(v) => v,
            None => return,
        };
        rec.ev(|| format!("write(in={}, out={}) -> ({}, {})   max_input({})={}", l, n, c, p, n, m));
        let rel = if l + 5 < n { "in<out-5" } else if l + 5 == n { "in=out-5" } else { "in>out-5" };
        let digits = format!("{:x}", c.max(1)).len();
        rec.cov(&format!("{}/fitted-hexdigits={}", rel, digits));
        if l >= 1 && n >= 6 && c == 0 {
            return rec.fail(
                "C19/no-progress",
                format!("chunked write(in={}, out={}) consumed 0 although a {}-byte buffer fits the smallest chunk", l, n, n),
            );
        }
        if let Some(b) = base {
            if l >= m && m > 0 && c < b.min(l) {
                return rec.fail(
                    "C19/less-than-advertised-max",
                    format!("write(in={}, out={}) consumed {} but offering only max_input({})={} bytes consumes {}", l, n, c, n, m, b),
                );
            }
        }
        if let Some((pl, pc)) = prev {
            if pc > c {
                return rec.fail(
                    "C19/more-input-less-progress",
                    format!("out={}: write(in={}) consumed {} but write(in={}) consumed only {}", n, pl, pc, l, c),
                );
            }
        }
        prev = Some((l, c));
    }
}

fn whole_body_loop(n: usize, total: usize, chunked: bool, rec: &mut Rec) {
    // the sender is a POST, or one of four body-less methods with the escape hatch, in turn
    let turn = (n + total / 1000) % 5;
    // (plus, by buffer size: one more head write, HTTP/1.0 with both framing headers left to C03, a
    // non-framing transfer-encoding on the original, a flow produced by a redirect)
    let extra = [0u32, 256, 512, 1024, 2048, 8192, 2048 | 1024, 0][(n / 3 + total / 5000) % 8];
    let variant: u32 = if turn == 0 { extra & (256 | 512 | 2048 | 8192 | if extra & 2048 != 0 { 1024 } else { 0 }) } else { 2 | ((turn as u32 - 1) << 5) | (extra & (256 | 1024 | 8192)) };
    if turn == 0 && extra == 2048 | 1024 {
        rec.cov("loop-sender/redirected-from-a-request-with-its-own-length");
    }
    if extra == 8192 {
        rec.cov("loop-sender/head-line-by-line");
    }
    rec.cov(if turn == 0 { "loop-sender/POST" } else { "loop-sender/despite-method" });
    // an HTTP/1.0 request that names chunked AND carries a content-length: the coding decides
    let both_on_10 = chunked && turn == 0 && extra == 512;
    let variant = if both_on_10 { variant | 4 } else { variant };
    if both_on_10 {
        rec.cov("loop-sender/http10-chunked-and-content-length");
    }
    let mut s = match crate::drive::body_sender_ex(if chunked { None } else { Some(total as u64) }, both_on_10, false, variant) {
        Ok(s) => s,
        Err(e) => return rec.fail("C19/setup", e),
    };
    let src = crate::wire::payload(total, 9);
    let mut pos = 0usize;
    let mut iters = 0usize;
    let mut buf = vec![0u8; n];
    if chunked && (n + total) % 4 == 1 {
        // a finishing write that finds no room (0..4 bytes) is not a finish: the body goes on as if it had
        // not happened
        let mut tiny = vec![0u8; n % 5];
        let r = s.write(&[], &mut tiny);
        rec.ev(|| format!("finishing write into {} bytes before the loop -> {:?}", tiny.len(), r));
        rec.cov("loop/after-a-finishing-write-without-room");
    }
    while pos < total {
        iters += 1;
        if iters > total + 1 {
            return rec.fail(
                "C19/loop-does-not-terminate",
                format!("{} body of {} bytes with a fixed {}-byte buffer: {} iterations and only {} bytes consumed", if chunked { "chunked" } else { "sized" }, total, n, iters, pos),
            );
        }
        rec.call();
        hookmon::arm(4 * ((total - pos) as u64 + n as u64) + 64);
        let r = s.write(&src[pos..], &mut buf);
        hookmon::disarm();
        match r {
            Ok((c, _)) => {
                if c == 0 {
                    return rec.fail(
                        "C19/no-progress",
                        format!("{} loop: write(in={}, out={}) consumed 0", if chunked { "chunked" } else { "sized" }, total - pos, n),
                    );
                }
                pos += c;
            }
            Err(e) => return rec.fail("C19/write-error", format!("loop write(in={}, out={}) -> Err({:?})", total - pos, n, e)),
        }
    }
    rec.ev(|| format!("loop: body={} buffer={} chunked={} finished in {} iterations", total, n, chunked, iters));
    rec.cov(&format!("loop/{}/{}", if chunked { "chunked" } else { "sized" }, if n < 32 { "tiny-buffer" } else if n < 10248 { "sub-chunk-buffer" } else { "multi-chunk-buffer" }));
}

const LOOP_NS: [usize; 20] = [6, 7, 8, 21, 22, 23, 50, 261, 262, 1024, 4102, 10247, 10248, 10249, 10250, 10253, 10254, 10260, 20496, 20500];

impl Property for P {
    fn id(&self) -> &'static str {
        "C19"
    }
    fn rule(&self) -> String {
        "consumed(L, n) of a single chunked write is measured with a fresh flow per call: must be >= 1 for L >= 1, n >= 6; >= consumed(min(L, max_input(n)), n); non-decreasing in L. Whole-body loops with a fixed buffer must finish within |body| iterations (bounded restatement of termination), chunked (n >= 6) and length-delimited (n >= 1). Sweep: every n in 6..=300 x every L in 1..=320, n around k*10248 +-16 with L up to 3 chunks, random pairs up to n = 11000. The loop senders rotate over POST and GET/TRACE/DELETE/OPTIONS through the escape hatch; one loop sends 70 000 bytes through a 6-byte buffer (70 000 chunks). class = (L vs n-5) x hex digits of the chunk that fitted; loop classes by buffer size.".into()
    }
    fn assumptions(&self) -> Vec<String> {
        vec!["a non-finishing chunked write does not change writer state, so consumed(L, n) is measured on fresh flows".into()]
    }
    fn workloads(&self, tier: Tier) -> Vec<Workload> {
        vec![
            Workload::new("small-grid", 295, true, "every n in 6..=300, every L in 1..=320"),
            Workload::new("chunk-edges", 3 * 33, true, "n in k*10248-16..=k*10248+16 (k=1..3), L over 40 lengths up to 3 chunks"),
            Workload::new("random-pairs", tier.pick(3_000, 600_000), false, "random n in 6..=11000, 24 ascending L each"),
            Workload::new("large-buffers", tier.pick(1_500, 60_000), false, "random n in 11 000..=400 000 (biased to powers of 16 and multiples of the chunk size +-16), L around n-8 and beyond"),
            Workload::new("large-loops", 24, true, "whole-body loops of 300 000 bytes through fixed buffers of 4 KiB..256 KiB incl. 65 536 + overhead"),
            Workload::new("loops", (LOOP_NS.len() * 2 * 3) as u64, true, "whole-body loops, fixed buffer, bodies of 1000/25000/70000 bytes"),
            Workload::new("sized-loops-small", 64, true, "length-delimited loops with buffers 1..=64"),
        ]
    }
    fn run_case(&self, wl: &str, idx: u64, seed: u64, rec: &mut Rec) {
        match wl {
            "small-grid" => {
                let ls: Vec<usize> = (1..=320).collect();
                sweep_n(6 + idx as usize, &ls, rec)
            }
            "chunk-edges" => {
                let k = 1 + (idx / 33) as usize;
                let n = k * 10248 - 16 + (idx % 33) as usize;
                let mut ls: Vec<usize> = vec![1, 2, 100, 10239, 10240, 10241, 10243, 10248, 20479, 20480, 20481, 30719, 30720, 30721, 31000];
                for d in 0..25 {
                    ls.push(n.saturating_sub(12) + d);
                }
                ls.retain(|l| *l >= 1);
                ls.sort();
                ls.dedup();
                sweep_n(n, &ls, rec)
            }
            "random-pairs" => {
                let mut rng = Rng::derive(seed, "C19", idx);
                let n = rng.usize_in(6, 11_000);
                let mut ls: Vec<usize> = (0..16).map(|_| rng.usize_in(1, 32_000)).collect();
                for d in 0..8 {
                    ls.push(n.saturating_sub(8).max(1) + d);
                }
                ls.sort();
                ls.dedup();
                sweep_n(n, &ls, rec)
            }
            "large-buffers" => {
                let mut rng = Rng::derive(seed, "C19-large", idx);
                let n = match rng.below(4) {
                    0 => (*rng.pick(&[0x10000usize, 0x20000, 0x40000, 0x8000, 0x4000]) + rng.usize_in(0, 40)).saturating_sub(16),
                    1 => (rng.usize_in(1, 38) * 10248 + rng.usize_in(0, 32)).saturating_sub(16),
                    _ => rng.usize_in(11_000, 400_000),
                };
                let mut ls: Vec<usize> = vec![1, 1000, n / 2];
                for d in 0..24 {
                    ls.push(n.saturating_sub(16) + d);
                }
                ls.push(n + 5000);
                ls.push(2 * n);
                ls.sort();
                ls.dedup();
                sweep_n(n, &ls, rec)
            }
            "large-loops" => {
                let ns = [4096usize, 16_384, 32_768, 65_535, 65_536, 65_541, 65_543, 65_544, 65_545, 65_552, 131_072, 262_144];
                let n = ns[idx as usize % ns.len()];
                whole_body_loop(n, 300_000, idx as usize / ns.len() == 0, rec)
            }
            "loops" => {
                let i = idx as usize;
                let n = LOOP_NS[i % LOOP_NS.len()];
                let chunked = (i / LOOP_NS.len()) % 2 == 0;
                let total = [1000usize, 25_000, 70_000][i / (LOOP_NS.len() * 2)];
                if n == 6 && total > 25_000 {
                    // the smallest buffer that can carry a chunk, one byte per chunk: a body that goes out in
                    // more chunks than fit a 16-bit counter
                    whole_body_loop(n, total, chunked, rec);
                    if chunked {
                        rec.cov("loop/chunked/more-than-65536-chunks");
                    }
                } else if n < 32 && total > 25_000 {
                    whole_body_loop(n, 5_000, chunked, rec)
                } else {
                    whole_body_loop(n, total, chunked, rec)
                }
            }
            _ => whole_body_loop(1 + idx as usize, 3000, false, rec),
        }
    }
    fn floors(&self, _tier: Tier) -> Vec<(String, u64)> {
        vec![
            ("in>out-5/*".into(), 10_000),
            ("in=out-5/*".into(), 200),
            ("in<out-5/*".into(), 1_000),
            ("in>out-5/fitted-hexdigits=2".into(), 1_000),
            ("in>out-5/fitted-hexdigits=4".into(), 100),
            ("loop/chunked/tiny-buffer".into(), 3),
            ("loop/chunked/more-than-65536-chunks".into(), 1),
            ("loop-sender/http10-chunked-and-content-length".into(), 1),
            ("loop/chunked/multi-chunk-buffer".into(), 3),
            ("loop/sized/tiny-buffer".into(), 3),
        ]
    }
}
