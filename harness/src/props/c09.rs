//! C09 — flows follow the documented state graph; the readiness query agrees with advancing.
use super::c01::{check_against_truth, gen_chain};
use crate::model::{random_response, Exchange, Handshake};
use crate::core::{guarded, panic_sig, Property, Rec, Tier, Workload};
use crate::drive::*;
use crate::json::esc_short;
use crate::rng::Rng;
use ureq_proto::client::flow::{Await100Result, RecvBodyResult, RecvResponseResult, RedirectAuthHeaders, SendRequestResult};

pub struct P;

/// Attempt to advance the flow the driver currently holds, whatever its readiness, and check
/// `can_proceed() <=> proceed() succeeds`. Consumes the driver's flow.
fn probe(d: &mut Driver, rec: &mut Rec) -> bool {
    let flow = std::mem::replace(&mut d.flow, AnyFlow::Gone);
    let state = flow.name();
    let r = guarded(move || -> Result<(bool, bool, &'static str), String> {
        Ok(match flow {
            AnyFlow::Prepare(f) => {
                let n = f.proceed();
                let _ = n.can_proceed();
                (true, true, "SendRequest")
            }
            AnyFlow::SendRequest(f) => {
                let ready = f.can_proceed();
                match f.proceed() {
                    Ok(Some(SendRequestResult::Await100(n))) => {
                        let _ = n.can_keep_await_100();
                        (ready, true, "Await100")
                    }
                    Ok(Some(SendRequestResult::SendBody(mut n))) => {
                        let _ = n.can_proceed();
                        let _ = n.is_chunked();
                        let _ = n.calculate_max_input(100);
                        (ready, true, "SendBody")
                    }
                    Ok(Some(SendRequestResult::RecvResponse(mut n))) => {
                        let _ = n.can_proceed();
                        let _ = n.try_response(b"");
                        (ready, true, "RecvResponse")
                    }
                    Ok(None) => (ready, false, "-"),
                    Err(e) => return Err(format!("SendRequest::proceed -> Err({:?})", e)),
                }
            }
            AnyFlow::Await100(f) => match f.proceed() {
                Ok(Await100Result::SendBody(mut n)) => {
                    let _ = n.can_proceed();
                    let _ = n.is_chunked();
                    (true, true, "SendBody")
                }
                Ok(Await100Result::RecvResponse(mut n)) => {
                    let _ = n.can_proceed();
                    let _ = n.try_response(b"");
                    (true, true, "RecvResponse")
                }
                Err(e) => return Err(format!("Await100::proceed -> Err({:?})", e)),
            },
            AnyFlow::SendBody(f) => {
                let ready = f.can_proceed();
                match f.proceed() {
                    Some(mut n) => {
                        let _ = n.can_proceed();
                        let _ = n.try_response(b"");
                        (ready, true, "RecvResponse")
                    }
                    None => (ready, false, "-"),
                }
            }
            AnyFlow::RecvResponse(f) => {
                let ready = f.can_proceed();
                match f.proceed() {
                    Some(RecvResponseResult::RecvBody(mut n)) => {
                        let _ = n.can_proceed();
                        let _ = n.body_mode();
                        let _ = n.is_on_chunk_boundary();
                        let _ = n.read(b"", &mut [0u8; 4]);
                        (ready, true, "RecvBody")
                    }
                    Some(RecvResponseResult::Redirect(n)) => {
                        let _ = n.status();
                        let _ = n.must_close_connection();
                        (ready, true, "Redirect")
                    }
                    Some(RecvResponseResult::Cleanup(n)) => {
                        let _ = n.must_close_connection();
                        (ready, true, "Cleanup")
                    }
                    None => (ready, false, "-"),
                }
            }
            AnyFlow::RecvBody(f) => {
                let ready = f.can_proceed();
                match f.proceed() {
                    Some(RecvBodyResult::Redirect(n)) => {
                        let _ = n.status();
                        let _ = n.close_reason();
                        (ready, true, "Redirect")
                    }
                    Some(RecvBodyResult::Cleanup(n)) => {
                        let _ = n.close_reason();
                        (ready, true, "Cleanup")
                    }
                    None => (ready, false, "-"),
                }
            }
            AnyFlow::Redirect(f) => {
                let n = f.proceed();
                let _ = n.must_close_connection();
                (true, true, "Cleanup")
            }
            AnyFlow::Cleanup(f) => {
                let _ = f.must_close_connection();
                let _ = f.close_reason();
                (true, true, "-")
            }
            AnyFlow::Gone => (true, true, "-"),
        })
    });
    rec.call();
    match r {
        Err((loc, msg)) => {
            rec.fail(&format!("C09/{}-in-{}", panic_sig(&loc, &msg), state), format!("advancing out of {} panicked: {} at {}", state, msg, loc));
            false
        }
        Ok(Err(e)) => {
            rec.fail(&format!("C09/advance-error-in-{}", state), e);
            false
        }
        Ok(Ok((ready, advanced, next))) => {
            rec.ev(|| format!("probe in {}: can_proceed()={} proceed() {} {}", state, ready, if advanced { "->" } else { "refused" }, next));
            rec.cov(&format!("probe/{}/{}", state, if advanced { "advanced" } else { "refused" }));
            if ready != advanced {
                rec.fail(
                    &format!("C09/readiness-disagrees-in-{}", state),
                    format!("{}: can_proceed() = {} but proceed() {}", state, ready, if advanced { "succeeded" } else { "returned None" }),
                );
                return false;
            }
            true
        }
    }
}

/// The flow a redirect produced is a flow like any other: it is driven through a complete second
/// exchange (its own random response, schedule, optional escape hatch, the Expect header it
/// inherited) and must follow the reference graph for the request it effectively is.
fn second_exchange_on(mut nf: F<ureq_proto::client::flow::state::Prepare>, policy: RedirectAuthHeaders, ex: &Exchange, rng: &mut Rng, rec: &mut Rec) -> bool {
    use crate::wire::{redirect_method, split_uri};
    let method2 = match redirect_method(ex.cfg.method, ex.head.status) {
        Some(m) => m,
        None => return true,
    };
    let uri2 = nf.uri().to_string();
    let keep_auth = super::heads::may_keep_auth(policy, &split_uri(&ex.cfg.uri), &split_uri(&uri2));
    let mut cfg2 = ReqCfg::new(method2, &uri2);
    cfg2.ver = ex.cfg.ver;
    // what the new request inherits: the original headers (not the ones the caller added to the
    // previous flow) minus cookie, content-length and, unless the policy keeps it, authorization
    cfg2.orig = ex
        .cfg
        .orig
        .iter()
        .filter(|(n, _)| !(n.eq_ignore_ascii_case("cookie") || n.eq_ignore_ascii_case("content-length") || n.eq_ignore_ascii_case("transfer-encoding") || (n.eq_ignore_ascii_case("authorization") && !keep_auth)))
        .cloned()
        .collect();
    let mut body2 = vec![];
    if !needs_body(method2) && rng.chance(1, 3) {
        cfg2.despite = true;
        body2 = crate::wire::payload(rng.usize_in(0, 40), 7);
    }
    if rng.chance(1, 3) {
        cfg2.added.push(("x-hop".into(), b"2".to_vec()));
    }
    let expect = cfg2.expect_100() && cfg2.sends_body();
    let handshake = if !expect {
        Handshake::None
    } else {
        match rng.below(4) {
            0 => Handshake::Got100,
            1 => Handshake::GiveUp(rng.usize_in(0, 3)),
            2 => Handshake::Late100(rng.usize_in(0, 3)),
            _ => Handshake::Refused,
        }
    };
    let (head, body, close_data) = random_response(rng, 300, true, "hop2");
    let ex2 = Exchange { cfg: cfg2, req_body: body2, handshake, interim_reason: "Continue", head, body, close_data, extra_interim: 0, unsolicited_100: 0 };
    let (stream, truth2) = match ex2.render() {
        Some(v) => v,
        None => return true,
    };
    if let Err(e) = apply_prepare(&mut nf, &ex2.cfg) {
        rec.fail("C09/redirected-flow-prepare", format!("{:?}", e));
        return false;
    }
    rec.ev(|| format!("second exchange on the redirected flow: {} | body {}B | handshake {:?} | response {} {:?}", ex2.cfg.describe(), ex2.req_body.len(), ex2.handshake, ex2.head.status, truth2.framing));
    let sched = Sched::random(rng, true);
    let mut d = Driver::new(nf, &ex2.cfg, &ex2.req_body, &stream, truth2.scen, sched);
    let end = d.run(rec);
    if end != Step::Done {
        rec.fail("C09/redirected-exchange-did-not-complete", format!("{:?}; {}", end, d.summary()));
        return false;
    }
    if !check_against_truth(&d, &ex2, &truth2, None, "C09/redirected", rec) {
        return false;
    }
    for w in d.path.windows(2) {
        rec.cov(&format!("redirected-edge/{}->{}", w[0], w[1]));
    }
    rec.cov("edge/Redirect->Prepare");
    true
}

/// `as_new_flow` takes `&mut self`: nothing in the types stops a caller from asking a Redirect flow for a
/// new flow a second time after the first call produced one. It must not panic.
fn second_follow_case(idx: u64, rec: &mut Rec) {
    let method = ["GET", "HEAD", "POST", "OPTIONS"][(idx % 4) as usize];
    let status = [301u16, 302, 303, 307, 308][(idx / 4 % 5) as usize];
    let loc: &[u8] = [&b"/next"[..], b"http://b.test/abs", b"../up?q=1", b"//c.test/p"][(idx / 20 % 4) as usize];
    let policy = if idx / 80 % 2 == 0 { RedirectAuthHeaders::Never } else { RedirectAuthHeaders::SameHost };
    let cfg = ReqCfg::new(method, "http://a.test/dir/file").h("authorization", b"x");
    let head = format!("HTTP/1.1 {} R\r\nLocation: {}\r\nContent-Length: 0\r\n\r\n", status, String::from_utf8_lossy(loc));
    let mut r = match fast_to_recv(&cfg).and_then(|f| fast_response(f, head.as_bytes())) {
        Ok((End::Redirect(r), ..)) => r,
        Ok(_) => return rec.fail("C09/setup", "no redirect state".into()),
        Err(e) => return rec.fail("C09/setup", e),
    };
    rec.call();
    let first = match r.as_new_flow(policy) {
        Ok(Some(f)) => f,
        _ => {
            rec.cov("second-follow/first-not-followed");
            return;
        }
    };
    let first_uri = first.uri().to_string();
    rec.call();
    let res = guarded(move || {
        let again = r.as_new_flow(policy).map(|o| o.map(|f| f.uri().to_string()));
        let _ = r.status();
        let _ = r.proceed();
        again
    });
    rec.ev(|| format!("{} {} Location {:?}: first as_new_flow -> {}, second -> {:?}", method, status, esc_short(loc, 40), first_uri, res));
    match res {
        Err((l, m)) => {
            // keyed on the file, not the line: the finding is this call sequence
            let file = l.split(':').next().unwrap_or("?").to_string();
            rec.fail(&format!("C09/second-as_new_flow-after-success/panic@{}", file), format!("{} {} Location {:?}: the second as_new_flow() on the same Redirect flow panicked: {} at {}", method, status, esc_short(loc, 40), m, l))
        }
        Ok(_) => rec.cov("second-follow/returned"),
    }
}

fn history_case(rng: &mut Rng, rec: &mut Rec) {
    let body_max = if rng.chance(1, 6) { 12_000 } else { 300 };
    let chain = gen_chain(rng, 1, body_max);
    let (ex, truth, _) = match chain.exchanges.first() {
        Some(e) => e,
        None => return,
    };
    let sched_seed = rng.next();
    let small = chain.small;
    let make = |rec: &mut Rec| -> Option<Driver> {
        let flow = match build_flow(&ex.cfg) {
            Ok(f) => f,
            Err(e) => {
                rec.fail("C09/setup", format!("{:?}", e));
                return None;
            }
        };
        let mut r = Rng::new(sched_seed);
        let sched = Sched::random(&mut r, small);
        Some(Driver::new(flow, &ex.cfg, &ex.req_body, &chain.stream, truth.scen, sched))
    };
    rec.ev(|| format!("request: {} | body {}B | handshake {:?} | response {} {:?}", ex.cfg.describe(), ex.req_body.len(), ex.handshake, ex.head.status, truth.framing));
    // full run: must follow the reference graph and be usable to completion
    let mut d = match make(rec) {
        Some(d) => d,
        None => return,
    };
    let end = d.run(rec);
    if end != Step::Done {
        return rec.fail("C09/exchange-did-not-complete", format!("{:?}; {}", end, d.summary()));
    }
    if !check_against_truth(&d, ex, truth, None, "C09", rec) {
        return;
    }
    let cfg_class = format!(
        "{}{}{}",
        if ex.cfg.sends_body() { if ex.cfg.despite { "despite-body" } else { "body" } } else { "nobody" },
        if ex.cfg.expect_100() && ex.cfg.sends_body() { "+expect" } else { "" },
        if ex.cfg.ver == Ver::V10 { "+http10" } else { "" }
    );
    for w in d.path.windows(2) {
        rec.cov(&format!("edge/{}->{}", w[0], w[1]));
        rec.cov(&format!("edge-config/{}->{}/{}", w[0], w[1], cfg_class));
    }
    if ex.unsolicited_100 > 0 {
        rec.cov("server/unsolicited-100");
    }
    let total_steps = d.steps;
    // Redirect -> Prepare edge: follow the redirect and use the new flow
    if truth.terminal == "Redirect" {
        if let Some(mut d2) = make(rec) {
            loop {
                if matches!(d2.flow, AnyFlow::Redirect(_)) {
                    break;
                }
                if d2.step(rec) != Step::More {
                    break;
                }
            }
            if let AnyFlow::Redirect(mut r) = std::mem::replace(&mut d2.flow, AnyFlow::Gone) {
                // (the last Location counts; a value that is not text cannot be followed)
                let has_location = ex.head.fields.iter().filter(|f| f.name.eq_ignore_ascii_case("location")).last().map(|f| f.value.is_ascii()).unwrap_or(false);
                let policy = if rng.chance(1, 2) { RedirectAuthHeaders::Never } else { RedirectAuthHeaders::SameHost };
                rec.call();
                // half of the followed redirects are driven as a complete second exchange (below)
                let second_exchange = rng.chance(1, 2);
                let mut new_flow_out = None;
                let res = guarded(move || {
                    let nf = r.as_new_flow(policy);
                    match nf {
                        Ok(Some(nf)) if second_exchange => Ok::<_, String>((Some(0), true, Some(nf))),
                        Ok(Some(nf)) => {
                            // the new flow must be usable: write its head and go on
                            let mut s = nf.proceed();
                            let head = write_head_big(&mut s).map_err(|e| format!("{:?}", e))?;
                            let ready = s.can_proceed();
                            let _ = s.proceed();
                            Ok::<_, String>((Some(head.len()), ready, None))
                        }
                        Ok(None) => {
                            // a declined redirect leaves the flow where it was: asking again and then
                            // moving on to Cleanup are permitted calls
                            let again = r.as_new_flow(policy);
                            let _ = r.status();
                            let _ = r.proceed();
                            if !matches!(again, Ok(None)) {
                                // nothing happened in between: the flow is where it was, the answer is the same
                                return Err(format!("as_new_flow declined (Ok(None)), asked again it said {:?}", again.map(|o| o.map(|f| f.uri().to_string()))));
                            }
                            Ok((None, true, None))
                        }
                        Err(e) => {
                            let _ = r.as_new_flow(policy);
                            let _ = r.proceed();
                            Err(format!("{:?}", e))
                        }
                    }
                });
                let table = crate::wire::redirect_method(ex.cfg.method, ex.head.status);
                match &res {
                    Ok(Ok((Some(_), ..))) if has_location && table.is_none() => {
                        return rec.fail("C09/redirect-edge-not-in-the-graph", format!("{} answered {}: the documented graph has no Redirect -> Prepare edge here, yet a new flow was produced", ex.cfg.method, ex.head.status));
                    }
                    Ok(Ok((None, ..))) if has_location && table.is_some() => {
                        return rec.fail("C09/redirect-edge-missing", format!("{} answered {}: the documented graph follows this redirect, as_new_flow declined", ex.cfg.method, ex.head.status));
                    }
                    _ => {}
                }
                match res {
                    Err((loc, msg)) => return rec.fail(&format!("C09/{}-in-Redirect", panic_sig(&loc, &msg)), format!("following the redirect panicked: {} at {}", msg, loc)),
                    Ok(Err(e)) => {
                        // the flow a redirect produces must be usable whatever the original request carried
                        // (its framing headers are not the new request's)
                        if has_location {
                            return rec.fail("C09/redirect-with-location-failed", format!("as_new_flow/new flow: {}", e));
                        }
                        rec.cov("edge/Redirect->(error: no Location)");
                    }
                    Ok(Ok((Some(_), _, Some(nf)))) => new_flow_out = Some((nf, policy)),
                    Ok(Ok((Some(n), ready, None))) => {
                        if n == 0 || !ready {
                            return rec.fail("C09/new-flow-not-usable", format!("flow created by the redirect wrote {} head bytes, ready={}", n, ready));
                        }
                        rec.cov("edge/Redirect->Prepare");
                    }
                    Ok(Ok((None, _, _))) => rec.cov("edge/Redirect->(not followed)"),
                }
                if let Some((nf, policy)) = new_flow_out {
                    if !second_exchange_on(nf, policy, ex, rng, rec) {
                        return;
                    }
                }
            }
        }
    }
    // premature / timely advance attempts at every step of the same history
    let ks: Vec<usize> = if total_steps <= 40 { (0..total_steps).collect() } else { (0..24).map(|_| rng.usize_in(0, total_steps - 1)).collect() };
    for k in ks {
        let mut dk = match make(rec) {
            Some(d) => d,
            None => return,
        };
        let mut silent = Rec::new(false);
        let mut ok = true;
        for _ in 0..k {
            if dk.step(&mut silent) != Step::More {
                ok = false;
                break;
            }
        }
        rec.calls += silent.calls;
        if !ok {
            continue;
        }
        rec.ev(|| format!("replayed {} steps, now in {}", k, dk.flow.name()));
        if !probe(&mut dk, rec) {
            return;
        }
    }
}

/// Requests that the analysis must refuse (and some it accepts): whatever the first write says,
/// the readiness query must agree with advancing and nothing may panic.
fn rejected_case(idx: u64, rec: &mut Rec) {
    use super::c17::{build, CLS, HOSTS, TES, VERS};
    let mut x = idx as usize;
    let mut take = |n: usize| {
        let v = x % n;
        x /= n;
        v
    };
    let ver = VERS[take(5)];
    let method = METHODS[take(9)];
    let host = HOSTS[take(5)];
    let cl = CLS[take(10)];
    let te = TES[take(6)];
    let despite = take(2) == 1;
    let writes = take(3);
    let cfg = build(ver, method, host, cl, te, despite);
    let flow = match build_flow(&cfg) {
        Ok(f) => f,
        Err(_) => return,
    };
    let mut f = flow.proceed();
    let mut outcomes = vec![];
    for _ in 0..writes {
        let mut buf = vec![0u8; 4096];
        rec.call();
        let r = guarded(|| f.write(&mut buf));
        match r {
            Err((loc, msg)) => return rec.fail(&format!("C09/{}-in-SendRequest", panic_sig(&loc, &msg)), format!("{}: write panicked: {} at {}", cfg.describe(), msg, loc)),
            Ok(r) => outcomes.push(r.is_ok()),
        }
    }
    rec.ev(|| format!("{} writes={:?}", cfg.describe(), outcomes));
    let body = b"x".repeat(cfg.declared_len().unwrap_or(0).min(16) as usize);
    let res = guarded(move || {
        let ready = f.can_proceed();
        match f.proceed() {
            Ok(Some(next)) => {
                // a flow that advanced is usable in its new state
                match next {
                    SendRequestResult::Await100(a) => {
                        let _ = a.can_keep_await_100();
                        let _ = a.proceed();
                    }
                    SendRequestResult::SendBody(mut s) => {
                        let mut out = [0u8; 64];
                        let _ = s.write(&body, &mut out);
                        let _ = s.write(&[], &mut out);
                        let _ = s.can_proceed();
                        let _ = s.proceed();
                    }
                    SendRequestResult::RecvResponse(mut r) => {
                        let _ = r.try_response(b"HTTP/1.1 200 OK\r\nContent-Length: 0\r\n\r\n");
                        let _ = r.proceed();
                    }
                }
                (ready, true)
            }
            Ok(None) => (ready, false),
            Err(_) => (ready, false),
        }
    });
    rec.call();
    match res {
        Err((loc, msg)) => rec.fail(
            &format!("C09/{}-in-SendRequest", panic_sig(&loc, &msg)),
            format!("{} after {} write(s) {:?}: advancing panicked: {} at {}", cfg.describe(), writes, outcomes, msg, loc),
        ),
        Ok((ready, advanced)) => {
            rec.cov(&format!("rejected-menu/writes={}/{}", writes, if advanced { "advanced" } else { "refused" }));
            if ready != advanced {
                rec.fail(
                    "C09/readiness-disagrees-in-SendRequest",
                    format!("{} after {} write(s) {:?}: can_proceed() = {} but proceed() {}", cfg.describe(), writes, outcomes, ready, if advanced { "succeeded" } else { "did not" }),
                );
            }
        }
    }
}

/// `Expect: 100-Continue` and other spellings: whether such a request waits for a 100 is not pinned
/// by the statement (the token is case-insensitive in HTTP, the crate matches it byte-exactly), so
/// either path through the graph is accepted — but the flow must be usable to completion, never
/// panic, and deliver the response intact.
fn expect_spelling_case(idx: u64, seed: u64, rec: &mut Rec) {
    let mut rng = Rng::derive(seed, "C09/expect-spelling", idx);
    let spelling: &[u8] = [&b"100-Continue"[..], b"100-CONTINUE", b"100-continuE", b" 100-continue", b"100-continue, x"][(idx % 5) as usize];
    let method = ["POST", "PUT", "PATCH", "GET"][(idx / 5 % 4) as usize];
    let server_answers_at_once = (idx / 20) % 2 == 1;
    let mut cfg = ReqCfg::new(method, "http://h.test/up");
    if method == "GET" {
        cfg.despite = true;
    }
    if (idx / 40) % 2 == 1 {
        cfg.ver = if http10_method(method) { Ver::V10 } else { Ver::V11 };
        cfg.orig.push(("connection".into(), b"close".to_vec()));
    }
    let body = crate::wire::payload(rng.usize_in(0, 40), 3);
    if rng.chance(1, 2) {
        cfg.orig.push(("content-length".into(), body.len().to_string().into_bytes()));
    }
    cfg.orig.push(("Expect".into(), spelling.to_vec()));
    let status = *rng.pick(&[200u16, 403, 417, 302, 204]);
    let mut stream = format!("HTTP/1.1 {} X\r\nServer: s\r\n{}Content-Length: {}\r\n\r\n", status, if status == 302 { "Location: /n\r\n" } else { "" }, if status == 204 { 0 } else { 5 }).into_bytes();
    let head_len = stream.len();
    if status != 204 {
        stream.extend_from_slice(b"hello");
    }
    let flow = match build_flow(&cfg) {
        Ok(f) => f,
        Err(e) => return rec.fail("C09/setup", format!("{:?}", e)),
    };
    let scen = if server_answers_at_once { Scen::Decide } else { Scen::GiveUpNoData(1) };
    let mut d = Driver::new(flow, &cfg, &body, &stream, scen, Sched::random(&mut rng, true));
    rec.ev(|| format!("{} server_answers_at_once={} status={}", cfg.describe(), server_answers_at_once, status));
    let end = d.run(rec);
    let waited = d.path.contains(&"Await100");
    rec.cov(&format!("expect-spelling/{}/{}", if waited { "awaited-100" } else { "did-not-await" }, if server_answers_at_once { "answered-at-once" } else { "answered-after-body" }));
    if end != Step::Done {
        return rec.fail("C09/exchange-did-not-complete", format!("Expect: {:?}: {:?}; {}", crate::json::esc(spelling), end, d.summary()));
    }
    let r = match &d.resp {
        Some(r) => r,
        None => return rec.fail("C09/no-response", "no response".into()),
    };
    if r.status != status || d.consumed != stream.len() || d.consumed < head_len {
        return rec.fail("C09/response-after-expect-spelling", format!("status {} consumed {} of {}", r.status, d.consumed, stream.len()));
    }
    if status != 204 && d.resp_body != b"hello" {
        return rec.fail("C09/response-after-expect-spelling", format!("body {:?}", crate::json::esc(&d.resp_body)));
    }
}

impl Property for P {
    fn id(&self) -> &'static str {
        "C09"
    }
    fn rule(&self) -> String {
        "random exchanges over the menu of the quantifier (every method, both versions, with/without Expect, with/without despite-method and framing headers; server: interim 100, late 100, refusal with/without fields, every body framing, redirects with/without Location) are driven under a seeded schedule; the states visited must equal the path the reference graph prescribes, the exchange must be usable to completion (C01's ground-truth checks apply), a Redirect is followed and the new flow used. The same deterministic history is then replayed to every step k (all steps for histories <= 40 calls, 24 sampled otherwise) and an advance is attempted there, ready or not: can_proceed() must equal 'proceed() succeeded', nothing may panic, and the freshly entered state's accessors are exercised. Half of the followed redirects are driven as a complete second exchange on the new flow (its own response, schedule, escape hatch, inherited Expect) against the same reference graph; a declined or failed as_new_flow is asked again and then left through proceed(). In-crate hook: the call holder variant must match the typestate at every Flow::wrap. class = graph edge x config class, probe state x outcome.".into()
    }
    fn assumptions(&self) -> Vec<String> {
        vec![
            "a second as_new_flow after a successful one is kept out of the random menu and watched by a workload of its own (second-follow: a listed known finding)".into(),
            "Await100::proceed and Redirect::proceed are always permitted".into(),
        ]
    }
    fn workloads(&self, tier: Tier) -> Vec<Workload> {
        vec![
            Workload::new("histories", tier.pick(6_000, 1_500_000), false, "random exchange histories + advance probes at every step"),
            Workload::new("second-follow", 160, true, "a second as_new_flow() on a Redirect flow whose first one produced a flow: 4 methods x 5 statuses x 4 Locations x 2 policies"),
            Workload::new("expect-spellings", 800, false, "Expect values in other spellings (100-Continue, ...), answered at once or after the body: either path, but usable to completion"),
            Workload::new("request-menu", 5 * 9 * 5 * 10 * 6 * 2 * 3, true, "every request shape of the C17 product (valid and invalid) x 0/1/2 head writes, then an advance attempt"),
        ]
    }
    fn run_case(&self, wl: &str, idx: u64, seed: u64, rec: &mut Rec) {
        if wl == "request-menu" {
            return rejected_case(idx, rec);
        }
        if wl == "expect-spellings" {
            return expect_spelling_case(idx, seed, rec);
        }
        if wl == "second-follow" {
            return second_follow_case(idx, rec);
        }
        let mut rng = Rng::derive(seed, wl, idx);
        history_case(&mut rng, rec)
    }
    fn floors(&self, _tier: Tier) -> Vec<(String, u64)> {
        let mut v: Vec<(String, u64)> = [
            "edge/Prepare->SendRequest", "edge/SendRequest->Await100", "edge/SendRequest->SendBody", "edge/SendRequest->RecvResponse", "edge/Await100->SendBody", "edge/Await100->RecvResponse", "edge/SendBody->RecvResponse",
            "edge/RecvResponse->RecvBody", "edge/RecvResponse->Redirect", "edge/RecvResponse->Cleanup", "edge/RecvBody->Redirect", "edge/RecvBody->Cleanup", "edge/Redirect->Cleanup", "edge/Redirect->Prepare",
        ]
        .iter()
        .map(|k| (k.to_string(), 10))
        .collect();
        for s in ["SendRequest", "SendBody", "RecvResponse", "RecvBody"] {
            v.push((format!("probe/{}/advanced", s), 20));
            v.push((format!("probe/{}/refused", s), 20));
        }
        v.push(("probe/Await100/advanced".into(), 20));
        v.push(("edge-config/SendRequest->SendBody/despite-body".into(), 5));
        v.push(("hook:flow:Await100:WithBody".into(), 10));
        v.push(("server/unsolicited-100".into(), 20));
        v.push(("edge/Redirect->(not followed)".into(), 5));
        v.push(("expect-spelling/*".into(), 500));
        v.push(("rejected-menu/writes=0/refused".into(), 100));
        v.push(("rejected-menu/writes=1/refused".into(), 100));
        v.push(("rejected-menu/writes=1/advanced".into(), 100));
        v.push(("rejected-menu/writes=2/advanced".into(), 100));
        v
    }
}
