//! C05 — response head parsing is exact and safe on every prefix.
use crate::core::{Property, Rec, Tier, Workload};
use crate::drive::*;
use crate::hookmon;
use crate::json::esc_short;
use crate::model::*;
use crate::rng::Rng;
use crate::wire::*;
use ureq_proto::client::call::Call;
use ureq_proto::client::flow::state::RecvResponse;
use ureq_proto::http::Request;

pub struct P;

pub fn recv_flow(method: &'static str) -> F<RecvResponse> {
    let cfg = ReqCfg::new(method, "http://h.test/");
    fast_to_recv(&cfg).expect("plain request reaches RecvResponse")
}

/// The ways a flow can arrive in the receive-response state. The response head must be judged
/// the same on all of them.
#[derive(Clone, Copy, Debug, PartialEq, Eq)]
pub enum Route {
    Plain(&'static str),
    /// body-carrying request, body sent
    Body,
    /// Expect: 100-continue, caller gave up waiting, body sent
    ExpectGaveUp,
    /// Expect: 100-continue, the server's (non-100) answer was seen while awaiting: straight to RecvResponse
    ExpectRefused,
    /// a body-less method turned into a body request by send_body_despite_method(), body sent
    DespiteBody,
}

impl Route {
    fn name(&self) -> &'static str {
        match self {
            Route::Plain(_) => "plain",
            Route::Body => "after-body",
            Route::ExpectGaveUp => "expect-gave-up",
            Route::ExpectRefused => "expect-refused",
            Route::DespiteBody => "despite-method-body",
        }
    }
}

/// `seen`: what the server had sent when the flow was in Await100 (only used by ExpectRefused; it must
/// be enough for the flow to decide). None if the route cannot be taken with that input.
pub fn recv_flow_via(route: Route, seen: &[u8]) -> Option<F<RecvResponse>> {
    use ureq_proto::client::flow::{Await100Result, SendRequestResult};
    match route {
        Route::Plain(m) => Some(recv_flow(m)),
        Route::Body => fast_to_recv(&ReqCfg::new("POST", "http://h.test/").h("content-length", b"3")).ok(),
        Route::ExpectGaveUp => fast_to_recv(&ReqCfg::new("PUT", "http://h.test/").h("expect", b"100-continue")).ok(),
        Route::DespiteBody => {
            let mut cfg = ReqCfg::new(if seen.len() % 2 == 0 { "GET" } else { "DELETE" }, "http://h.test/");
            cfg.despite = true;
            fast_to_recv(&cfg).ok()
        }
        Route::ExpectRefused => {
            let cfg = ReqCfg::new("POST", "http://h.test/").h("expect", b"100-continue");
            let mut f = build_flow(&cfg).ok()?.proceed();
            write_head_big(&mut f).ok()?;
            let mut a = match f.proceed().ok()?? {
                SendRequestResult::Await100(a) => a,
                _ => return None,
            };
            let n = a.try_read_100(seen).ok()?;
            if n != 0 || a.can_keep_await_100() {
                return None;
            }
            match a.proceed().ok()? {
                Await100Result::RecvResponse(r) => Some(r),
                _ => None,
            }
        }
    }
}

fn check_complete(truth: &RespHead, hlen: usize, n: usize, obs: &RespObs, rec: &mut Rec, api: &str) -> bool {
    if n != hlen {
        rec.fail("C05/consumed-not-head-length", format!("{}: consumed {} for a head of {} bytes", api, n, hlen));
        return false;
    }
    if obs.status != truth.status || obs.http10 != truth.http10 {
        rec.fail("C05/status-or-version", format!("{}: reported status {} http10={}, sent {} http10={}", api, obs.status, obs.http10, truth.status, truth.http10));
        return false;
    }
    if let Err(e) = same_fields(&expected_fields(truth), &obs.headers) {
        rec.fail("C05/fields-differ", format!("{}: {}", api, e));
        return false;
    }
    true
}

fn head_case(rng: &mut Rng, all_prefixes: bool, redirect_focus: bool, rec: &mut Rec) {
    let lane = crate::core::lane_mode();
    let nf = if lane { rng.usize_in(0, 3) } else if redirect_focus { rng.usize_in(1, 8) } else { field_count_choice(rng) };
    let truth = gen_resp_head(rng, nf, redirect_focus);
    let head = truth.render();
    let hlen = head.len();
    let mut stream = head.clone();
    stream.extend_from_slice(&random_tail(rng));
    // (CONNECT and OPTIONS too: what the head says is handed out whatever the client later makes of its fields)
    let method = *rng.pick(&["GET", "HEAD", "GET", "DELETE", "CONNECT", "OPTIONS"]);
    rec.cov(&format!("method/{}/{}xx", method, truth.status / 100));
    rec.ev(|| format!("head ({} bytes, {} fields, status {}): {:?}", hlen, nf, truth.status, esc_short(&head, 400)));
    let bounds = head_boundaries(&truth);
    let mut prefixes = prefix_set(rng, hlen, &bounds, all_prefixes);
    if lane {
        // a dozen prefixes spread over the head
        let step = (prefixes.len() / 12).max(1);
        prefixes = prefixes.into_iter().step_by(step).collect();
    }
    let loc_end = if redirect_focus {
        // offset right after the Location line
        let mut p = head.windows(2).position(|w| w == b"\r\n").unwrap() + 2;
        let mut end = None;
        for f in &truth.fields {
            p += f.name.len() + 1 + f.lead.len() + f.value.len() + f.trail.len() + 2;
            if f.name.eq_ignore_ascii_case("location") {
                end = Some(p);
                break;
            }
        }
        end
    } else {
        None
    };
    // the point from which a flow awaiting 100 can tell that this is not a 100: the end of the
    // first field line, or of the whole head when it has no fields
    let decided_at = {
        let sl = head.windows(2).position(|w| w == b"\r\n").unwrap() + 2;
        match truth.fields.first() {
            Some(f) => sl + f.name.len() + 1 + f.lead.len() + f.value.len() + f.trail.len() + 2,
            None => hlen,
        }
    };
    let routes = [Route::Plain(method), Route::Body, Route::ExpectGaveUp, Route::ExpectRefused, Route::DespiteBody];
    // (a) a fresh flow per prefix, arriving in the receive state by every route
    for (pi, &p) in prefixes.iter().enumerate() {
        let mut route = routes[(pi + hlen) % 5];
        if lane {
            route = Route::Plain(method);
        }
        let mut f = match recv_flow_via(route, &stream[..decided_at.min(stream.len())]) {
            Some(f) if route != Route::ExpectRefused || p >= decided_at => f,
            _ => {
                route = Route::Plain(method);
                recv_flow(method)
            }
        };
        if p >= decided_at.min(hlen) {
            rec.cov(&format!("route/{}", route.name()));
        }
        if !(300..400).contains(&truth.status) && (pi + hlen) % 4 == 1 {
            // the head is no redirect: with the opt-in for truncated redirect heads switched on, every prefix must
            // still be answered the same way
            f.allow_partial_redirect(true);
            rec.cov("opt-in-on/non-redirect-prefix");
        }
        rec.call();
        hookmon::arm(4 * p as u64 + 64);
        let r = f.try_response(&stream[..p]);
        hookmon::disarm();
        let after_loc = loc_end.map(|e| p >= e).unwrap_or(false);
        rec.cov(&format!("cut/{}{}", truth.cut_class(&head, p), if after_loc { "/3xx-after-location" } else { "" }));
        match r {
            Ok((0, None)) => {}
            Ok((n, None)) => {
                return rec.fail("C05/consumed-on-prefix", format!("prefix {} of {}: consumed {} without a response", p, hlen, n));
            }
            Ok((n, Some(resp))) => {
                let sig = if hookmon::partial_redirects_in_case() > 0 { "C05/truncated-redirect-accepted" } else { "C05/response-on-strict-prefix" };
                rec.ev(|| format!("try_response(prefix {}) -> Ok(({}, Some(status {}, {} fields)))", p, n, resp.status(), resp.headers().len()));
                return rec.fail(
                    sig,
                    format!(
                        "prefix {} of a {} byte head ({:?}...) returned a response with {} of {} fields, consumed {}",
                        p,
                        hlen,
                        esc_short(&stream[..p], 120),
                        resp.headers().len(),
                        nf,
                        n
                    ),
                );
            }
            Err(e) => {
                rec.ev(|| format!("try_response(prefix {}) -> Err({:?})", p, e));
                return rec.fail(
                    "C05/error-on-strict-prefix",
                    format!("prefix {} of a {} byte well-formed head ({:?}) -> Err({:?})", p, hlen, esc_short(&stream[..p], 80), e),
                );
            }
        }
        if f.can_proceed() {
            return rec.fail("C05/ready-on-prefix", format!("prefix {}: can_proceed() true", p));
        }
    }
    // (b) the head, and the head plus tail, on fresh flows reached by every route, through Flow, Call and the bare parser
    for (ri, end) in [hlen, stream.len(), hlen, stream.len()].into_iter().enumerate() {
        let route = if lane { Route::Plain(method) } else { routes[(ri + nf) % 5] };
        let mut f = match recv_flow_via(route, &stream[..decided_at.min(stream.len())]) {
            Some(f) => f,
            None => recv_flow(method),
        };
        rec.cov(&format!("complete-route/{}", route.name()));
        rec.call();
        match f.try_response(&stream[..end]) {
            Ok((n, Some(resp))) => {
                if !check_complete(&truth, hlen, n, &observe_response(&resp), rec, "Flow") {
                    return;
                }
                rec.cov(if end == hlen { "complete/exact" } else { "complete/with-tail" });
                // the same flow is offered the head once more (what a caller does that wants the response
                // behind an interim 102/103, which this state hands out like any other): it is a head like
                // the first
                if ri % 2 == 1 && truth.status != 100 {
                    rec.call();
                    match f.try_response(&stream[..end]) {
                        Ok((n2, Some(resp2))) => {
                            if !check_complete(&truth, hlen, n2, &observe_response(&resp2), rec, "Flow (second head on the same flow)") {
                                return;
                            }
                            rec.cov("complete/second-head-on-the-same-flow");
                        }
                        other => {
                            return rec.fail(
                                "C05/second-head-not-accepted",
                                format!("a complete head of {} bytes offered a second time to the same flow: {:?}", hlen, other.map(|(n, r)| (n, r.is_some()))),
                            )
                        }
                    }
                }
            }
            other => {
                return rec.fail(
                    "C05/complete-head-not-accepted",
                    format!("{} fields, {} bytes offered: {:?}", nf, end, other.map(|(n, r)| (n, r.is_some()))),
                )
            }
        }
    }
    {
        let req = Request::get("http://h.test/").body(()).unwrap();
        let mut c = Call::without_body(req).unwrap();
        let mut b = [0u8; 256];
        c.write(&mut b).unwrap();
        let mut c = c.into_receive().unwrap();
        rec.call();
        match c.try_response(&stream) {
            Ok(Some((n, resp))) => {
                if !check_complete(&truth, hlen, n, &observe_response(&resp), rec, "Call") {
                    return;
                }
            }
            other => return rec.fail("C05/complete-head-not-accepted", format!("Call API: {:?}", other.map(|o| o.map(|v| v.0)))),
        }
        rec.call();
        match ureq_proto::parser::try_parse_response::<128>(&stream) {
            Ok(Some((n, resp))) => {
                if !check_complete(&truth, hlen, n, &observe_response(&resp), rec, "parser") {
                    return;
                }
            }
            other => return rec.fail("C05/complete-head-not-accepted", format!("parser: {:?}", other.map(|o| o.map(|v| v.0)))),
        }
    }
    if lane {
        return;
    }
    // (c') one flow offered a window ending 1, 2 or 3 bytes before the end of the head, then the rest
    for back in 1..=3usize {
        if hlen <= back {
            continue;
        }
        let mut f = recv_flow(method);
        let mut steps = vec![hlen - back];
        if back > 1 && rng.chance(1, 2) {
            steps.push(hlen - 1);
        }
        steps.push(if rng.chance(1, 2) { hlen } else { stream.len() });
        for (si, p) in steps.iter().enumerate() {
            rec.call();
            let last = si + 1 == steps.len();
            match f.try_response(&stream[..*p]) {
                Ok((0, None)) if !last => {}
                Ok((n, Some(resp))) if last => {
                    if !check_complete(&truth, hlen, n, &observe_response(&resp), rec, "Flow(near-end window)") {
                        return;
                    }
                    rec.cov("near-end-window/complete");
                }
                other => {
                    return rec.fail(
                        if last { "C05/complete-head-not-accepted" } else { "C05/growing-prefix-misjudged" },
                        format!("same flow offered {:?} bytes of a {}-byte head in turn; at {}: {:?}", steps, hlen, p, other.map(|(n, r)| (n, r.map(|x| x.status().as_u16())))),
                    )
                }
            }
        }
    }
    // (c) one flow fed growing prefixes
    let mut f = recv_flow(method);
    let mut p = 0usize;
    loop {
        rec.call();
        match f.try_response(&stream[..p]) {
            Ok((0, None)) if p < hlen => {}
            Ok((n, Some(resp))) if p >= hlen => {
                if !check_complete(&truth, hlen, n, &observe_response(&resp), rec, "Flow(growing)") {
                    return;
                }
                rec.cov("growing/complete");
                break;
            }
            other => {
                return rec.fail(
                    if p < hlen { "C05/growing-prefix-misjudged" } else { "C05/complete-head-not-accepted" },
                    format!("growing window at {} of {}: {:?}", p, hlen, other.map(|(n, r)| (n, r.map(|x| x.status().as_u16())))),
                )
            }
        }
        if p >= stream.len() {
            return rec.fail("C05/complete-head-not-accepted", "whole stream offered, no response".into());
        }
        p = (p + match rng.below(4) {
            0 => 1,
            1 => rng.usize_in(1, 7),
            2 => rng.usize_in(1, 60),
            _ => rng.usize_in(1, 600),
        })
        .min(stream.len());
    }
}

/// Short heads offered after other looks on the same flow: incomplete looks at a late 100 (which is then
/// passed over), incomplete looks at the head itself in growing or SHRINKING windows. What a look saw
/// before must not matter for what this window holds.
fn after_other_looks_case(idx: u64, rec: &mut Rec) {
    const HEADS: [&[u8]; 4] = [b"HTTP/1.1 200 OK\r\n\r\n", b"HTTP/1.1 204\r\n\r\n", b"HTTP/1.0 404 \r\nA:b\r\n\r\n", b"HTTP/1.1 500 Internal Server Error\r\nServer: s\r\n\r\n"];
    let head = HEADS[(idx % 4) as usize];
    let interim = b"HTTP/1.1 100 Continue\r\n\r\n";
    let split = 1 + (idx / 4 % 24) as usize; // where the late 100 is cut
    let with_late_100 = idx / 96 % 2 == 0;
    let mut f = match recv_flow_via(if with_late_100 { Route::ExpectGaveUp } else { Route::Plain("GET") }, b"") {
        Some(f) => f,
        None => return rec.fail("C05/setup", "route".into()),
    };
    if with_late_100 {
        rec.call();
        match f.try_response(&interim[..split]) {
            Ok((0, None)) => {}
            other => return rec.fail("C05/error-on-strict-prefix", format!("prefix {} of the late 100: {:?}", split, other.map(|(n, r)| (n, r.is_some())))),
        }
        rec.call();
        match f.try_response(interim) {
            Ok((n, None)) if n == interim.len() => rec.cov("after-other-looks/late-100-in-two-looks"),
            other => return rec.fail("C05/late-100-not-passed-over", format!("{:?}", other.map(|(n, r)| (n, r.is_some())))),
        }
    } else {
        // a longer incomplete window first (another head's beginning), then the short complete one
        let long = b"HTTP/1.1 200 OK\r\nX-Long-Field-Name-That-Goes-On: and a value that goes on as w";
        rec.call();
        match f.try_response(&long[..long.len().min(20 + split * 2)]) {
            Ok((0, None)) => rec.cov("after-other-looks/longer-incomplete-window-first"),
            other => return rec.fail("C05/error-on-strict-prefix", format!("{:?}", other.map(|(n, r)| (n, r.is_some())))),
        }
    }
    rec.call();
    match f.try_response(head) {
        Ok((n, Some(_))) if n == head.len() => {}
        other => rec.fail(
            "C05/complete-head-not-accepted",
            format!("{:?} offered after {}: {:?}", crate::json::esc(head), if with_late_100 { format!("a late 100 seen in two looks (cut at {})", split) } else { "a longer incomplete window".to_string() }, other.map(|(n, r)| (n, r.is_some()))),
        ),
    }
}

fn limit_case(rng: &mut Rng, rec: &mut Rec) {
    // 128 accepted, 129.. rejected
    let nf = *rng.pick(&[126usize, 127, 128, 128, 129, 129, 130, 140, 200]);
    let truth = gen_resp_head(rng, nf, false);
    let head = truth.render();
    let mut f = recv_flow("GET");
    rec.call();
    let r = f.try_response(&head);
    rec.ev(|| format!("{} fields ({} bytes) -> {:?}", nf, head.len(), r.as_ref().map(|(n, r)| (*n, r.is_some()))));
    rec.cov(&format!("limit/{}", if nf <= 128 { "le128" } else { "gt128" }));
    if nf <= 128 {
        match r {
            Ok((n, Some(resp))) => {
                check_complete(&truth, head.len(), n, &observe_response(&resp), rec, "Flow");
            }
            other => rec.fail("C05/limit-128-rejected", format!("{} fields: {:?}", nf, other.map(|(n, r)| (n, r.is_some())))),
        }
    } else if r.is_ok() {
        rec.fail("C05/limit-129-accepted", format!("{} fields were accepted: {:?}", nf, r.map(|(n, r)| (n, r.is_some()))));
    }
}

impl Property for P {
    fn id(&self) -> &'static str {
        "C05"
    }
    fn rule(&self) -> String {
        "generated well-formed heads (1.0/1.1, status 101..999, empty/long/obs-text reasons, 0..128 fields, random token names, SP/HTAB whitespace, empty values, obs-text) rendered from a structure, followed by an arbitrary tail. Every prefix (all of them for heads <= 700 bytes or in the thorough tier; all token boundaries +-2, head/tail windows and 150 random ones otherwise) is offered to a fresh Flow<RecvResponse> that reached that state by one of four routes (plain request, after a sent body, Expect given up, Expect refused by this very response): strict prefixes must give Ok((0, None)), the full head (+tail) must give exactly |H| consumed and the generated status/version/fields (Flow, Call and bare parser). One flow is also fed a growing window. A dedicated workload cuts 3xx heads after their Location line; the PartialRedirect hook attributes such acceptances. Limit workload: 126..200 fields. class = token class of the cut x after-Location.".into()
    }
    fn assumptions(&self) -> Vec<String> {
        vec![
            "status line always has the SP before the (possibly empty) reason phrase".into(),
            "allow_partial_redirect(true) is only ever called where it must not matter (heads that are not 3xx); what it accepts of a truncated 3xx head is documented opt-in behaviour and not judged here".into(),
        ]
    }
    fn workloads(&self, tier: Tier) -> Vec<Workload> {
        vec![
            if tier == Tier::Quick {
                Workload::new("heads", 2_000, false, "random heads x prefixes (all prefixes for heads <= 700 bytes, boundaries +-2 and windows otherwise)")
            } else {
                Workload::new("heads-all-prefixes", 150_000, false, "random heads x every prefix")
            },
            Workload::new("redirect-cuts", tier.pick(1_500, 200_000), false, "3xx heads with a Location followed by more fields, every prefix"),
            Workload::new("field-limit", tier.pick(300, 20_000), false, "heads with 126..200 fields"),
            Workload::new("after-other-looks", 192, true, "four short heads offered after a late 100 seen in two looks (every cut), or after a longer incomplete window"),
        ]
    }
    fn run_case(&self, wl: &str, idx: u64, seed: u64, rec: &mut Rec) {
        let mut rng = Rng::derive(seed, wl, idx);
        match wl {
            "heads" => head_case(&mut rng, false, false, rec),
            "heads-all-prefixes" => head_case(&mut rng, true, false, rec),
            "redirect-cuts" => head_case(&mut rng, true, true, rec),
            "after-other-looks" => after_other_looks_case(idx, rec),
            _ => limit_case(&mut rng, rec),
        }
    }
    fn floors(&self, _tier: Tier) -> Vec<(String, u64)> {
        let mut v: Vec<(String, u64)> = [
            "cut/empty", "cut/in-version", "cut/after-version", "cut/in-status", "cut/in-reason", "cut/statusline-CR", "cut/after-statusline", "cut/in-name", "cut/in-ows", "cut/in-value", "cut/field-CR", "cut/after-field", "cut/final-CR",
            "cut/after-field/3xx-after-location", "cut/in-value/3xx-after-location", "cut/final-CR/3xx-after-location", "complete/exact", "complete/with-tail", "growing/complete", "limit/le128", "limit/gt128",
        ]
        .iter()
        .map(|k| (k.to_string(), 50))
        .collect();
        v.push(("cut/*".into(), 100_000));
        for r in ["plain", "after-body", "expect-gave-up", "expect-refused", "despite-method-body"] {
            v.push((format!("route/{}", r), 1000));
            v.push((format!("complete-route/{}", r), 100));
        }
        v.push(("near-end-window/complete".into(), 1000));
        v.push(("opt-in-on/non-redirect-prefix".into(), 1000));
        v.push(("method/CONNECT/2xx".into(), 20));
        v
    }
}
