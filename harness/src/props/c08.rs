//! C08 — length- and close-delimited response bodies arrive verbatim, never over-read.
use crate::core::{Property, Rec, Tier, Workload};
use crate::drive::*;
use crate::hookmon;
use crate::rng::Rng;
use crate::wire::payload;
use ureq_proto::client::flow::{RecvBodyResult, RecvResponseResult};

pub struct P;

const NEXT: &[u8] = b"HTTP/1.1 204 No Content\r\nX: y\r\n\r\n";

fn pick_n(rng: &mut Rng, idx: u64) -> u64 {
    match idx % 8 {
        0 => 1 + (idx / 8) % 70_000,
        1 => *rng.pick(&[1u64, 2, 3, 255, 256, 65_535, 65_536, 70_000]),
        2 => *rng.pick(&[u32::MAX as u64, u32::MAX as u64 + 1, 1 << 40, u64::MAX - 1, u64::MAX]),
        3 => 1 + rng.below(40),
        _ => 1 + rng.below(70_000),
    }
}

fn length_case(rng: &mut Rng, idx: u64, rec: &mut Rec) {
    let n = pick_n(rng, idx);
    let huge = n > 70_000;
    let avail = if huge { rng.usize_in(1, 5000) } else { n as usize };
    let mut stream = payload(avail, (idx % 200) as u8);
    if !huge {
        // what stands behind the body is not the body's, whatever it looks like: one stream in four goes
        // on with a line end of its own (servers that end a body with a CRLF) before the next response
        match idx / 8 % 4 {
            1 => {
                rec.cov("length/line-end-behind-the-body");
                stream.extend_from_slice(if idx / 32 % 2 == 0 { b"\r\n" } else { b"\r\n\r\n" })
            }
            _ => {}
        }
        stream.extend_from_slice(NEXT);
    }
    let http10 = rng.chance(1, 4);
    // the request: mostly plain; one in five asked with HTTP/1.0, one in eight a CONNECT that is turned down
    // (only a 2xx answer to CONNECT has no body)
    let req_kind = match rng.below(40) {
        0..=7 => "http10-request",
        8..=12 => "connect-refused",
        _ => "plain",
    };
    let status = if req_kind == "connect-refused" { *rng.pick(&[407u16, 403, 502, 302, 400]) } else { *rng.pick(&[200u16, 200, 201, 404, 500, 301, 302, 307, 300, 399]) };
    let redirect = (300..400).contains(&status);
    // a chunked coding on an HTTP/1.0 response is not defined and ignored: the length still rules
    let te10 = http10 && rng.chance(1, 3);
    rec.cov(&format!("length/status-{}{}", if redirect { "3xx" } else { "other" }, if te10 { "/http10-with-ignored-chunked" } else { "" }));
    // what stands next to the length field must not matter: fields with an empty value, long ones,
    // the field name in other case, optional whitespace around the value, fields after it
    // (among the neighbours: codings that are not chunked, written with empty list elements)
    let before = *rng.pick(&["", "", "X-Trace:\r\n", "X-Trace: \r\nX-Other:\t\r\n", "Content-Type: text/plain\r\n", "Set-Cookie: a=b; Path=/\r\nSet-Cookie: c=d\r\n", "Transfer-Encoding: identity,\r\n", "Transfer-Encoding: gzip, ,deflate\r\n", "Transfer-Encoding:\r\n"]);
    let after = *rng.pick(&["", "", "X-After:\r\n", "Vary: *\r\n"]);
    let cl_name = *rng.pick(&["Content-Length", "Content-Length", "content-length", "CONTENT-LENGTH"]);
    let (ows1, ows2) = *rng.pick(&[(" ", ""), (" ", ""), ("", ""), ("  ", " "), ("\t", "\t ")]);
    if !before.is_empty() || !after.is_empty() {
        rec.cov("length/neighbouring-fields");
    }
    let head = format!(
        "HTTP/1.{} {} X\r\n{}{}{}{}:{}{}{}\r\n{}\r\n",
        if http10 { 0 } else { 1 },
        status,
        if redirect { "Location: /next\r\n" } else { "" },
        if te10 { "Transfer-Encoding: chunked\r\n" } else { "" },
        before,
        cl_name,
        ows1,
        n,
        ows2,
        after
    );
    // one case in six: the request used Expect: 100-continue, the caller gave up waiting, and the late
    // 100 arrives in the same window as the head and the first body bytes
    let late_100 = rng.chance(1, 6);
    let mut f = if late_100 {
        rec.cov("length/behind-a-late-100");
        match super::c05::recv_flow_via(super::c05::Route::ExpectGaveUp, b"") {
            Some(f) => f,
            None => return rec.fail("C08/setup", "expect route".into()),
        }
    } else if req_kind == "http10-request" {
        rec.cov("length/http10-request");
        let mut cfg = ReqCfg::new(*rng.pick(&["GET", "POST"]), "http://h.test/");
        cfg.ver = Ver::V10;
        match fast_to_recv(&cfg) {
            Ok(f) => f,
            Err(e) => return rec.fail("C08/setup", e),
        }
    } else if req_kind == "connect-refused" {
        rec.cov("length/connect-refused");
        super::c05::recv_flow("CONNECT")
    } else {
        super::c05::recv_flow(*rng.pick(&["GET", "POST", "DELETE"]))
    };
    if !late_100 && rng.chance(1, 8) {
        // an interim 103 is handed out first; the head behind it, offered to the same flow, decides
        let interim = b"HTTP/1.1 103 Early Hints\r\nLink: </a.css>; rel=preload\r\n\r\n";
        rec.cov("length/behind-an-interim-103");
        match f.try_response(interim) {
            Ok((k, Some(_))) if k == interim.len() => {}
            other => return rec.fail("C08/setup", format!("interim 103: {:?}", other.map(|v| v.0))),
        }
    }
    if late_100 {
        let interim = b"HTTP/1.1 100 Continue\r\n\r\n";
        let mut first = interim.to_vec();
        first.extend_from_slice(head.as_bytes());
        first.extend_from_slice(&stream[..avail.min(40)]);
        let mut used = 0usize;
        let mut got = false;
        for _ in 0..3 {
            match f.try_response(&first[used..]) {
                Ok((k, r)) => {
                    used += k;
                    if r.is_some() {
                        got = true;
                        break;
                    }
                    if k == 0 {
                        break;
                    }
                }
                Err(e) => return rec.fail("C08/setup", format!("{:?}", e)),
            }
        }
        if !got || used != interim.len() + head.len() {
            return rec.fail(
                "C08/body-offset-after-late-100",
                format!("late 100 ({} bytes) + head ({} bytes) in one window: {} bytes consumed before the body, response returned: {}", interim.len(), head.len(), used, got),
            );
        }
    } else {
        if rng.chance(1, 3) {
            // the head arrives in two pieces: a look at the first one (cut anywhere, for a redirect preferably
            // right behind its Location line) learns nothing, and the body starts behind the whole head
            let hb = head.as_bytes();
            let cut = if redirect && rng.chance(1, 2) {
                let after_loc = head.find("Location: /next\r\n").map(|i| i + "Location: /next\r\n".len()).unwrap_or(1);
                (after_loc + rng.usize_in(0, 3)).min(hb.len() - 1)
            } else {
                rng.usize_in(1, hb.len() - 1)
            };
            rec.cov(if redirect { "length/head-in-two-pieces/3xx" } else { "length/head-in-two-pieces/other" });
            match f.try_response(&hb[..cut]) {
                Ok((0, None)) => {}
                other => {
                    return rec.fail(
                        "C08/head-decided-before-complete",
                        format!("{} bytes of a {} byte head ({} request, status {}): {:?} - the body starts behind the whole head", cut, hb.len(), req_kind, status, other.map(|v| (v.0, v.1.is_some()))),
                    )
                }
            }
        }
        match f.try_response(head.as_bytes()) {
            Ok((k, Some(_))) if k == head.len() => {}
            other => return rec.fail("C08/setup", format!("{:?}", other.map(|v| v.0))),
        }
    }
    let mut b = match f.proceed() {
        Some(RecvResponseResult::RecvBody(b)) => b,
        _ => return rec.fail("C08/no-body-state", format!("Content-Length {} ({} request, status {}) did not lead to the body state", n, req_kind, status)),
    };
    if mode_of(b.body_mode()) != Mode::Length(n) {
        return rec.fail("C08/mode", format!("body_mode() = {:?} for Content-Length {}", b.body_mode(), n));
    }
    rec.ev(|| format!("Content-Length: {} ({} bytes available{})", n, avail, if huge { "" } else { " + next response" }));
    let arrive = *rng.pick(&[Prof::Big, Prof::Mixed, Prof::Mixed, Prof::Tiny, Prof::Fixed(1000)]);
    let outp = *rng.pick(&[Prof::Big, Prof::Mixed, Prof::Mixed, Prof::Tiny, Prof::Fixed(1)]);
    let (arrive, outp) = if avail > 3000 && (arrive == Prof::Tiny || outp == Prof::Tiny || outp == Prof::Fixed(1)) { (Prof::Mixed, Prof::Fixed(777)) } else { (arrive, outp) };
    let mut arrived = 0usize;
    let mut consumed = 0usize;
    let mut left = n;
    let mut steps = 0;
    let cap = 8 * stream.len() + 200;
    loop {
        steps += 1;
        if steps > cap {
            return rec.fail("C08/no-termination", format!("{} reads, delivered {} of {}", steps, consumed, n));
        }
        let complete = b.can_proceed();
        if complete != (left == 0) {
            return rec.fail(
                if complete { "C08/complete-early" } else { "C08/not-complete-at-n" },
                format!("delivered {} of {}: can_proceed() = {}", n - left, n, complete),
            );
        }
        if left == 0 || (huge && consumed == avail) {
            break;
        }
        arrived += arrive.arrival(rng, stream.len() - arrived, (left.min(64)) as usize);
        let window = &stream[consumed..arrived];
        let osz = outp.size(rng, window.len().min(left.min(1 << 20) as usize));
        let mut buf = vec![0xEEu8; osz];
        rec.call();
        hookmon::arm(64);
        let r = b.read(window, &mut buf);
        hookmon::disarm();
        rec.ev(|| format!("read(in={}, out={}) -> {:?} (model: {} left)", window.len(), osz, r, left));
        let want = window.len().min(osz).min(left.min(usize::MAX as u64) as usize);
        let wc = if (window.len() as u64) < left { "window<left" } else if window.len() as u64 == left { "window=left" } else { "window>left" };
        rec.cov(&format!("length/{}/{}", wc, if osz == 0 { "out=0" } else if osz < window.len() { "out<window" } else { "out>=window" }));
        match r {
            Ok((c, p)) => {
                if c != want || p != want {
                    let sig = if c as u64 > left { "C08/over-read" } else { "C08/count-not-min-of-three" };
                    return rec.fail(sig, format!("read(in={}, out={}) with {} left -> ({}, {}), expected ({}, {})", window.len(), osz, left, c, p, want, want));
                }
                if buf[..p] != window[..c] {
                    return rec.fail("C08/bytes-altered", "delivered bytes differ from the input".into());
                }
                if buf[p..].iter().any(|x| *x != 0xEE) {
                    return rec.fail("C08/wrote-beyond-reported", "output buffer modified beyond the reported count".into());
                }
                consumed += c;
                left -= c as u64;
            }
            Err(e) => return rec.fail("C08/read-error", format!("{:?}", e)),
        }
    }
    if !huge {
        if consumed != n as usize {
            return rec.fail("C08/consumed-total", format!("consumed {} for Content-Length {}", consumed, n));
        }
        // a read after completion takes nothing from the next response
        let mut buf = [0u8; 64];
        rec.call();
        match b.read(&stream[consumed..], &mut buf) {
            Ok((0, 0)) => rec.cov("length/read-after-complete"),
            other => return rec.fail("C08/over-read", format!("read after completion -> {:?}: bytes of the next response were taken", other)),
        }
        match b.proceed() {
            Some(RecvBodyResult::Cleanup(c)) if !redirect => {
                // (an HTTP/1.0 request is a close condition of its own: C10)
                if c.must_close_connection() != (req_kind == "http10-request" && !late_100) {
                    return rec.fail("C08/length-body-forces-close", format!("a length delimited exchange without any close condition demands closing: {:?}", c.close_reason()));
                }
            }
            Some(RecvBodyResult::Redirect(r)) if redirect => {
                if r.must_close_connection() != (req_kind == "http10-request" && !late_100) {
                    return rec.fail("C08/length-body-forces-close", format!("a length delimited redirect without any close condition demands closing: {:?}", r.close_reason()));
                }
            }
            _ => return rec.fail("C08/proceed", "complete body did not proceed to the state its status prescribes".into()),
        }
    }
}

fn close_case(rng: &mut Rng, idx: u64, rec: &mut Rec) {
    let total = match idx % 4 {
        0 => rng.usize_in(0, 20),
        1 => rng.usize_in(0, 70_000),
        _ => rng.usize_in(0, 3000),
    };
    let stream = payload(total, (idx % 200) as u8);
    let http10 = rng.chance(1, 2);
    let mut status = *rng.pick(&[200u16, 404, 500, 201]);
    let mut head = format!("HTTP/1.{} {} X\r\nServer: s\r\n\r\n", if http10 { 0 } else { 1 }, status);
    if rng.chance(1, 6) {
        // a redirect that announces a body with a coding that is not (or, on HTTP/1.0, cannot be) applied:
        // that body ends when the connection does
        status = *rng.pick(&[301u16, 302, 307]);
        let te = if http10 { *rng.pick(&["chunked", "gzip"]) } else { *rng.pick(&["gzip", "identity", ""]) };
        head = format!("HTTP/1.{} {} X\r\nLocation: /n\r\nTransfer-Encoding: {}\r\n\r\n", if http10 { 0 } else { 1 }, status, te);
        rec.cov("close/redirect-with-unapplied-coding");
    }
    // one case in five: the body arrives on a flow that already has every other reason to close
    // (HTTP/1.0 request, Connection: close on both sides, Expect refused by this very response)
    let loaded = rng.chance(1, 5);
    let loaded = loaded && !(300..400).contains(&status);
    let head = if loaded { format!("HTTP/1.{} {} X\r\nServer: s\r\nConnection: close\r\n\r\n", if http10 { 0 } else { 1 }, status) } else { head };
    let mut f = if loaded {
        use ureq_proto::client::flow::{Await100Result, SendRequestResult};
        rec.cov("close/with-four-other-close-reasons");
        let mut cfg = ReqCfg::new("POST", "http://h.test/x").h("connection", b"close").h("expect", b"100-continue");
        cfg.ver = Ver::V10;
        let made = (|| -> Option<_> {
            let mut s = build_flow(&cfg).ok()?.proceed();
            write_head_big(&mut s).ok()?;
            let mut a = match s.proceed().ok()?? {
                SendRequestResult::Await100(a) => a,
                _ => return None,
            };
            a.try_read_100(head.as_bytes()).ok()?;
            match a.proceed().ok()? {
                Await100Result::RecvResponse(r) => Some(r),
                _ => None,
            }
        })();
        match made {
            Some(f) => f,
            None => return rec.fail("C08/setup", "refused-expect route".into()),
        }
    } else {
        let m = *rng.pick(&["GET", "POST", "GET", "POST", "CONNECT"]);
        if m == "CONNECT" && !(200..300).contains(&status) {
            // a CONNECT that is turned down is answered like any other request
            rec.cov("close/connect-refused");
        }
        if m == "CONNECT" && (200..300).contains(&status) {
            super::c05::recv_flow("GET")
        } else {
            super::c05::recv_flow(m)
        }
    };
    match f.try_response(head.as_bytes()) {
        Ok((k, Some(_))) if k == head.len() => {}
        other => return rec.fail("C08/setup", format!("{:?}", other.map(|v| v.0))),
    }
    let mut b = match f.proceed() {
        Some(RecvResponseResult::RecvBody(b)) => b,
        _ => return rec.fail("C08/no-body-state", format!("a response whose body ends with the connection did not lead to the body state: {:?}", crate::json::esc_short(head.as_bytes(), 90))),
    };
    if mode_of(b.body_mode()) != Mode::Close {
        return rec.fail("C08/mode", format!("body_mode() = {:?} for a response without framing headers", b.body_mode()));
    }
    let arrive = *rng.pick(&[Prof::Big, Prof::Mixed, Prof::Tiny]);
    let outp = *rng.pick(&[Prof::Big, Prof::Mixed, Prof::Tiny]);
    let (arrive, outp) = if total > 3000 { (Prof::Mixed, Prof::Fixed(501)) } else { (arrive, outp) };
    let stop_at = if rng.chance(1, 3) { rng.usize_in(0, total) } else { total };
    let mut arrived = 0usize;
    let mut consumed = 0usize;
    let mut steps = 0;
    while consumed < stop_at {
        steps += 1;
        if steps > 8 * total + 200 {
            return rec.fail("C08/no-termination", format!("{} reads, passed {} of {}", steps, consumed, total));
        }
        if !b.can_proceed() {
            return rec.fail("C08/close-delimited-cannot-proceed", format!("can_proceed() false after {} bytes of a close-delimited body", consumed));
        }
        arrived += arrive.arrival(rng, total - arrived, 16);
        let window = &stream[consumed..arrived];
        let osz = outp.size(rng, window.len());
        let mut buf = vec![0xEEu8; osz];
        rec.call();
        let r = b.read(window, &mut buf);
        rec.ev(|| format!("read(in={}, out={}) -> {:?}", window.len(), osz, r));
        let want = window.len().min(osz);
        rec.cov(&format!("close/{}", if osz == 0 { "out=0" } else if osz < window.len() { "out<window" } else { "out>=window" }));
        match r {
            Ok((c, p)) => {
                if c != want || p != want {
                    return rec.fail("C08/close-count", format!("read(in={}, out={}) -> ({}, {}), expected ({}, {})", window.len(), osz, c, p, want, want));
                }
                if buf[..p] != window[..c] {
                    return rec.fail("C08/bytes-altered", "close-delimited bytes differ from the input".into());
                }
                consumed += c;
            }
            Err(e) => return rec.fail("C08/read-error", format!("{:?}", e)),
        }
    }
    if !b.can_proceed() {
        return rec.fail("C08/close-delimited-cannot-proceed", "can_proceed() false".into());
    }
    match b.proceed() {
        Some(RecvBodyResult::Cleanup(c)) => {
            rec.call();
            if !c.must_close_connection() || c.close_reason().is_none() {
                return rec.fail(
                    "C08/close-delimited-offered-for-reuse",
                    format!("close-delimited body: must_close_connection() = {} reason = {:?}", c.must_close_connection(), c.close_reason()),
                );
            }
            rec.cov(if stop_at < total { "close/proceed-early" } else { "close/proceed-at-end" });
        }
        Some(RecvBodyResult::Redirect(r)) if (300..400).contains(&status) => {
            rec.call();
            if !r.must_close_connection() || r.close_reason().is_none() {
                return rec.fail(
                    "C08/close-delimited-offered-for-reuse",
                    format!("close-delimited body of a redirect: must_close_connection() = {} reason = {:?}", r.must_close_connection(), r.close_reason()),
                );
            }
            rec.cov("close/proceed-to-redirect");
        }
        _ => rec.fail("C08/proceed", "close-delimited body did not proceed to the state its status prescribes".into()),
    }
}

/// Responses that have no body although they carry a Content-Length (HEAD, 204, 304, 1xx): not one
/// byte of what follows on the connection may be taken as body.
/// A Content-Length that does not fit 64 bits is not a length the reader can count down: either the head is refused,
/// or the body is still outstanding after everything that was offered - never complete after a handful of bytes.
fn overflowing_length_case(idx: u64, rec: &mut Rec) {
    let value = ["18446744073709551616", "18446744073709551621", "99999999999999999999", "184467440737095516150", "340282366920938463463374607431768211461"][(idx % 5) as usize];
    let (method, status) = [("GET", 200u16), ("POST", 404), ("GET", 302)][(idx / 5 % 3) as usize];
    let head = format!("HTTP/1.1 {} X\r\n{}Content-Length: {}\r\n\r\n", status, if status == 302 { "Location: /n\r\n" } else { "" }, value);
    let mut f = super::c05::recv_flow(method);
    rec.call();
    match f.try_response(head.as_bytes()) {
        Err(_) => rec.cov("overflowing-length/refused"),
        Ok((_, None)) => rec.fail("C08/overflowing-length", format!("Content-Length {}: the complete head is neither accepted nor refused", value)),
        Ok((_, Some(_))) => match f.proceed() {
            Some(RecvResponseResult::RecvBody(mut b)) => {
                let data = payload(300, 7);
                let mut out = vec![0u8; 1024];
                let mut used = 0;
                for _ in 0..4 {
                    match b.read(&data[used..], &mut out) {
                        Ok((c, _)) => used += c,
                        Err(_) => break,
                    }
                }
                if b.can_proceed() {
                    return rec.fail("C08/overflowing-length", format!("Content-Length {} (more than 64 bits hold): the body is reported complete after {} bytes", value, used));
                }
                rec.cov("overflowing-length/still-outstanding");
            }
            _ => rec.fail("C08/overflowing-length", format!("Content-Length {}: accepted, and no body is expected at all", value)),
        },
    }
}

fn bodyless_case(idx: u64, rec: &mut Rec) {
    // (a tunnel that was granted - 2xx to CONNECT - has no body either: what follows the head is tunnel data)
    let (method, status) = [("HEAD", 200u16), ("GET", 204), ("GET", 304), ("POST", 304), ("HEAD", 301), ("GET", 199), ("DELETE", 204), ("HEAD", 404), ("CONNECT", 200), ("CONNECT", 204)][(idx % 10) as usize];
    let n = [1u64, 5, 70_000, u64::MAX][(idx / 10 % 4) as usize];
    let head = format!("HTTP/1.1 {} X\r\nContent-Length: {}\r\n{}\r\n", status, n, if status == 301 { "Location: /n\r\n" } else { "" });
    let mut stream = head.clone().into_bytes();
    stream.extend_from_slice(NEXT);
    let cfg = ReqCfg::new(method, "http://h.test/x");
    let f = match fast_to_recv(&cfg) {
        Ok(f) => f,
        Err(e) => return rec.fail("C08/setup", e),
    };
    rec.call();
    match fast_response(f, &stream) {
        Ok((_, _, consumed, body)) => {
            rec.cov(&format!("bodyless-with-length/{}-{}", method, status));
            if consumed != head.len() || !body.is_empty() {
                rec.fail(
                    "C08/over-read",
                    format!("{} {} with Content-Length {} has no body, yet {} bytes beyond the head were consumed and {} delivered: they belong to the next response", method, status, n, consumed.saturating_sub(head.len()), body.len()),
                );
            }
        }
        Err(e) => rec.fail("C08/bodyless-exchange-failed", e),
    }
}

impl Property for P {
    fn id(&self) -> &'static str {
        "C08"
    }
    fn rule(&self) -> String {
        "Content-Length N (stratified sweep of 1..=70000 plus u32/u64 extremes): payload of N bytes followed by the head of a next response, delivered under random arrival schedules and output sizes (0, 1, tiny, exact, big); every read must move exactly min(window, space, remaining) bytes unchanged, never more than N in total, complete <=> N delivered, a read after completion takes nothing. Close-delimited: every offered byte passes unchanged, can_proceed() at every point, leaving at any time leads to Cleanup with must-close and a reason. The length field stands among other fields (empty values before it, fields after it), in three spellings of its name and with optional whitespace. class = (window vs remaining) x (space vs window). Requests are plain, HTTP/1.0 or a refused CONNECT; a third of the heads arrive in two pieces (for redirects right behind the Location line). overflowing-length: values above u64::MAX are refused or never complete early. CONNECT 200/204 count among the body-less responses.".into()
    }
    fn assumptions(&self) -> Vec<String> {
        vec!["N = 0 never reaches the body state (C06) and is not part of this workload".into()]
    }
    fn workloads(&self, tier: Tier) -> Vec<Workload> {
        vec![
            Workload::new("length", tier.pick(20_000, 2_500_000), false, "Content-Length bodies"),
            Workload::new("close", tier.pick(8_000, 1_200_000), false, "close-delimited bodies"),
            Workload::new("overflowing-length", 15, true, "5 Content-Length values above u64::MAX x 3 (method, status) pairs: refused, or never complete after a few bytes"),
            Workload::new("bodyless-with-length", 40, true, "HEAD / 204 / 304 / 1xx carrying a Content-Length, followed by a next response"),
        ]
    }
    fn run_case(&self, wl: &str, idx: u64, seed: u64, rec: &mut Rec) {
        let mut rng = Rng::derive(seed, wl, idx);
        if wl == "length" {
            length_case(&mut rng, idx, rec)
        } else if wl == "bodyless-with-length" {
            bodyless_case(idx, rec)
        } else if wl == "overflowing-length" {
            overflowing_length_case(idx, rec)
        } else {
            close_case(&mut rng, idx, rec)
        }
    }
    fn floors(&self, _tier: Tier) -> Vec<(String, u64)> {
        [
            "length/window<left/*", "length/window=left/*", "length/window>left/out>=window", "length/window>left/out<window", "length/window>left/out=0", "length/read-after-complete", "close/out=0", "close/out<window", "close/out>=window",
            "length/http10-request", "length/connect-refused", "close/connect-refused", "length/head-in-two-pieces/3xx", "close/proceed-early", "close/proceed-at-end", "close/with-four-other-close-reasons", "length/status-3xx", "length/behind-a-late-100", "length/status-other/http10-with-ignored-chunked", "close/redirect-with-unapplied-coding", "close/proceed-to-redirect", "length/line-end-behind-the-body",
        ]
        .iter()
        .map(|k| (k.to_string(), 50))
        .chain(std::iter::once(("bodyless-with-length/*".to_string(), 32)))
        .collect()
    }
}
