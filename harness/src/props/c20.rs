//! C20 — standalone head parsers round-trip well-formed heads and honour their limits.
use crate::core::{Property, Rec, Tier, Workload};
use crate::drive::{fmt_fields, observe_response, same_fields, RespObs, METHODS};
use crate::json::esc_short;
use crate::model::*;
use crate::rng::Rng;
use crate::wire::*;
use ureq_proto::http::Version;
use ureq_proto::parser::{try_parse_partial_response, try_parse_request, try_parse_response};
use ureq_proto::Error;

pub struct P;

const LIMITS: [usize; 4] = [0, 1, 4, 128];

type FullResp = Result<Option<(usize, RespObs)>, Error>;
type PartResp = Result<Option<RespObs>, Error>;
/// (len, method, http10, fields)
type FullReq = Result<Option<(usize, String, bool, Vec<(String, Vec<u8>)>)>, Error>;

fn full_resp(n: usize, b: &[u8]) -> FullResp {
    fn go<const N: usize>(b: &[u8]) -> FullResp {
        try_parse_response::<N>(b).map(|o| o.map(|(n, r)| (n, observe_response(&r))))
    }
    match n {
        0 => go::<0>(b),
        1 => go::<1>(b),
        4 => go::<4>(b),
        _ => go::<128>(b),
    }
}

fn part_resp(n: usize, b: &[u8]) -> PartResp {
    fn go<const N: usize>(b: &[u8]) -> PartResp {
        try_parse_partial_response::<N>(b).map(|o| o.map(|r| observe_response(&r)))
    }
    match n {
        0 => go::<0>(b),
        1 => go::<1>(b),
        4 => go::<4>(b),
        _ => go::<128>(b),
    }
}

fn full_req(n: usize, b: &[u8]) -> FullReq {
    fn go<const N: usize>(b: &[u8]) -> FullReq {
        try_parse_request::<N>(b).map(|o| {
            o.map(|(n, r)| {
                (
                    n,
                    r.method().to_string(),
                    r.version() == Version::HTTP_10,
                    r.headers().iter().map(|(k, v)| (k.as_str().to_string(), v.as_bytes().to_vec())).collect(),
                )
            })
        })
    }
    match n {
        0 => go::<0>(b),
        1 => go::<1>(b),
        4 => go::<4>(b),
        _ => go::<128>(b),
    }
}

fn pick_nfields(rng: &mut Rng, limit: usize) -> usize {
    match rng.below(8) {
        0 => 0,
        1 => limit,
        2 => limit + 1,
        3 => limit + 2,
        4 => limit.saturating_sub(1),
        _ => rng.usize_in(0, limit + 2),
    }
}

/// end offset (through LF) of each field line of the rendered head
fn field_line_ends(h: &RespHead, first_line_len: usize) -> Vec<usize> {
    let mut p = first_line_len;
    h.fields
        .iter()
        .map(|f| {
            p += f.name.len() + 1 + f.lead.len() + f.value.len() + f.trail.len() + 2;
            p
        })
        .collect()
}

fn response_case(rng: &mut Rng, all: bool, rec: &mut Rec) {
    let lane = crate::core::lane_mode();
    let limit = if lane { *rng.pick(&[0usize, 1, 4]) } else { *rng.pick(&LIMITS) };
    let nf = pick_nfields(rng, limit);
    let mut truth = gen_resp_head(rng, nf, false);
    if rng.chance(1, 6) {
        // to a parser that stands alone a 100 is a status like any other, with or without fields
        truth.status = 100;
        rec.cov(&format!("response/status-100/N={}", limit));
    }
    let head = truth.render();
    let hlen = head.len();
    let mut stream = head.clone();
    stream.extend_from_slice(&random_tail(rng));
    let want = expected_fields(&truth);
    rec.ev(|| format!("response head: N={} fields={} len={} {:?}", limit, nf, hlen, esc_short(&head, 300)));
    let within = nf <= limit;
    let relation = if nf < limit { "below" } else if nf == limit { "at" } else { "above" };
    // complete head
    for end in [hlen, stream.len()] {
        rec.call();
        let r = full_resp(limit, &stream[..end]);
        rec.cov(&format!("response/N={}/fields-{}-limit/complete", limit, relation));
        match (within, r) {
            (true, Ok(Some((n, obs)))) => {
                if n != hlen {
                    return rec.fail("C20/response-length", format!("N={} reported length {} for a head of {}", limit, n, hlen));
                }
                if obs.status != truth.status || obs.http10 != truth.http10 {
                    return rec.fail("C20/response-status-version", format!("reported {} http10={}, sent {} http10={}", obs.status, obs.http10, truth.status, truth.http10));
                }
                if let Err(e) = same_fields(&want, &obs.headers) {
                    return rec.fail("C20/response-fields", e);
                }
            }
            (true, other) => {
                return rec.fail(
                    if matches!(other, Err(Error::HttpParseTooManyHeaders)) { "C20/too-many-headers-within-limit" } else { "C20/response-complete-head-not-parsed" },
                    format!("N={} fields={}: {:?}", limit, nf, other.map(|o| o.map(|v| v.0))),
                )
            }
            (false, Err(Error::HttpParseTooManyHeaders)) => {}
            (false, other) => {
                return rec.fail(
                    "C20/limit-not-enforced",
                    format!("N={} fields={}: expected HttpParseTooManyHeaders, got {:?}", limit, nf, other.map(|o| o.map(|v| v.0))),
                )
            }
        }
    }
    // prefixes
    let bounds = head_boundaries(&truth);
    let line_ends = field_line_ends(&truth, head.windows(2).position(|w| w == b"\r\n").unwrap() + 2);
    let mut pset = prefix_set(rng, hlen, &bounds, all);
    if lane {
        let step = (pset.len() / 16).max(1);
        pset = pset.into_iter().step_by(step).collect();
    }
    for p in pset {
        rec.call();
        let r = full_resp(limit, &stream[..p]);
        rec.cov(&format!("response/N={}/fields-{}-limit/prefix/{}", limit, relation, truth.cut_class(&head, p)));
        match (within, r) {
            (_, Ok(None)) => {}
            (false, Err(Error::HttpParseTooManyHeaders)) => {}
            (_, Ok(Some(_))) => return rec.fail("C20/response-complete-on-prefix", format!("N={} prefix {} of {} parsed as complete", limit, p, hlen)),
            (_, Err(e)) => return rec.fail("C20/response-error-on-prefix", format!("N={} fields={} prefix {} of {} ({:?}) -> Err({:?})", limit, nf, p, hlen, esc_short(&stream[..p], 60), e)),
        }
        // partial parser
        rec.call();
        let r = part_resp(limit, &stream[..p]);
        match r {
            Ok(None) => {}
            Ok(Some(obs)) => {
                if obs.status != truth.status || obs.http10 != truth.http10 {
                    return rec.fail("C20/partial-status-version", format!("prefix {}: reported {} http10={}", p, obs.status, obs.http10));
                }
                // reported fields: per name an in-order prefix of the head's values for that name,
                // and every reported field's line lies completely inside the prefix
                let mut names: Vec<&String> = obs.headers.iter().map(|(k, _)| k).collect();
                names.sort();
                names.dedup();
                for name in names {
                    let got: Vec<&Vec<u8>> = obs.headers.iter().filter(|(k, _)| k == name).map(|(_, v)| v).collect();
                    let truth_idx: Vec<usize> = want.iter().enumerate().filter(|(_, (k, _))| k == name).map(|(i, _)| i).collect();
                    if got.len() > truth_idx.len() {
                        return rec.fail("C20/partial-reports-unknown-field", format!("prefix {} reports {} values of {:?}, the head has {}", p, got.len(), name, truth_idx.len()));
                    }
                    for (j, v) in got.iter().enumerate() {
                        let i = truth_idx[j];
                        if **v != want[i].1 {
                            return rec.fail(
                                "C20/partial-reports-unknown-field",
                                format!("prefix {} reports {}: {:?} where the head's value #{} of that name is {:?}", p, name, esc_short(v, 40), j, esc_short(&want[i].1, 40)),
                            );
                        }
                        if line_ends[i] > p {
                            return rec.fail(
                                "C20/partial-reports-incomplete-field",
                                format!("prefix {} reports field #{} {:?} whose line ends at offset {}", p, i, name, line_ends[i]),
                            );
                        }
                    }
                }
                rec.cov(&format!("partial/N={}/reported-{}", limit, if obs.headers.is_empty() { "no-fields" } else { "some-fields" }));
            }
            Err(e) => {
                if within {
                    return rec.fail(
                        "C20/partial-error-on-prefix",
                        format!("partial parser N={} fields={} prefix {} of {} ({:?}) -> Err({:?})", limit, nf, p, hlen, esc_short(&stream[..p], 60), e),
                    );
                }
            }
        }
    }
}

/// Every token character (RFC 9110 5.6.2) in a method name, at the start, in the middle and alone: a
/// request head is well-formed with any of them, and the parser has to hand back that very method.
const TCHARS: &[u8] = b"!#$%&'*+-.^_`|~09azAZ";
fn method_token_case(idx: u64, rec: &mut Rec) {
    let c = TCHARS[(idx as usize) % TCHARS.len()] as char;
    let method = match idx as usize / TCHARS.len() {
        0 => format!("{}", c),
        1 => format!("M{}X", c),
        2 => format!("{}ET", c),
        _ => format!("LONG-EXTENSION-METHOD{}", c),
    };
    let head = format!("{} /t HTTP/1.1\r\nHost: h.test\r\n\r\n", method);
    rec.call();
    match full_req(4, head.as_bytes()) {
        Ok(Some((n, m, _, _))) if n == head.len() && m == method => rec.cov("method-token/parsed"),
        other => rec.fail(
            &format!("C20/method-token-refused/0x{:02x}", c as u32),
            format!("request head {:?} (method token containing {:?}): {:?}", head, c, other.map(|o| o.map(|v| (v.0, v.1)))),
        ),
    }
}

/// The parsers are functions of their input. Whatever was parsed before - another head in the very same
/// buffer, an abandoned incomplete head, another limit - the answer for THIS input is the same.
fn history_case(idx: u64, rec: &mut Rec) {
    // (a) one buffer reused for two different response heads of equal length
    let a = b"HTTP/1.1 302 Found\r\nLocation: /aaaa\r\nX-A: 1\r\nConnection: keep-alive\r\n\r\n".to_vec();
    let b = b"HTTP/1.1 301 Moved\r\nLocation: /bbbb\r\nX-B: 2\r\nConnection: keep-alive\r\n\r\n".to_vec();
    assert_eq!(a.len(), b.len());
    let p = 20 + (idx as usize % (a.len() - 21)); // a strict prefix length
    let mut buf = a.clone();
    rec.call();
    let first = full_resp(128, &buf[..p]);
    if !matches!(first, Ok(None)) {
        return rec.fail("C20/response-complete-on-prefix", format!("prefix {} of {}: {:?}", p, a.len(), first.map(|o| o.map(|v| v.0))));
    }
    buf.copy_from_slice(&b);
    rec.call();
    match part_resp(128, &buf[..p]) {
        Ok(None) => {}
        Ok(Some(obs)) => {
            let prefix = &b[..p];
            if obs.status != 301 || obs.headers.iter().any(|(n, v)| !contains_line(prefix, n, v)) {
                return rec.fail(
                    "C20/partial-reports-unknown-field",
                    format!("the same buffer held another head before: partial parse of {:?} reports status {} fields {:?}", esc_short(prefix, 90), obs.status, fmt_fields(&obs.headers)),
                );
            }
            rec.cov("history/reused-buffer");
        }
        Err(e) => return rec.fail("C20/partial-error-on-prefix", format!("{:?}", e)),
    }
    // (b) an abandoned incomplete request head of k bytes, then a complete one that ends before byte k
    let k = 30 + (idx as usize % 60);
    let long: Vec<u8> = format!("GET /{} HTTP/1.1\r\nX-Long: {}", "p".repeat(40), "v".repeat(80)).into_bytes();
    rec.call();
    let r0 = full_req(4, &long[..k.min(long.len())]);
    if !matches!(r0, Ok(None)) {
        return rec.fail("C20/request-complete-on-prefix", format!("{:?}", r0.map(|o| o.map(|v| v.0))));
    }
    let short = b"PUT /s HTTP/1.1\r\nHost: h\r\n\r\n";
    let mut second = short.to_vec();
    second.extend_from_slice(&vec![b'b'; 120]); // body bytes behind the head, no empty line among them
    rec.call();
    match full_req(4, &second) {
        Ok(Some((n, m, _, f))) if n == short.len() && m == "PUT" && f.len() == 1 => rec.cov("history/after-an-abandoned-request"),
        other => rec.fail(
            "C20/request-complete-head-not-parsed",
            format!("after an abandoned incomplete head of {} bytes, a complete head of {} bytes followed by body bytes: {:?}", k, short.len(), other.map(|o| o.map(|v| (v.0, v.1)))),
        ),
    }
}

fn contains_line(prefix: &[u8], name: &str, value: &[u8]) -> bool {
    // the field's line (name, colon, value, CRLF) lies completely inside the prefix
    let lower: Vec<u8> = prefix.to_ascii_lowercase();
    let mut line = name.to_ascii_lowercase().into_bytes();
    line.extend_from_slice(b": ");
    line.extend_from_slice(&value.to_ascii_lowercase());
    line.extend_from_slice(b"\r\n");
    lower.windows(line.len()).any(|w| w == &line[..])
}

fn request_case(rng: &mut Rng, all: bool, rec: &mut Rec) {
    let lane = crate::core::lane_mode();
    let limit = if lane { *rng.pick(&[0usize, 1, 4]) } else { *rng.pick(&LIMITS) };
    let nf = pick_nfields(rng, limit);
    let method = *rng.pick(&METHODS);
    let long_target = format!("/{}", "x".repeat(70_000));
    let target: &str = match rng.below(12) {
        0 => "urn:example:thing",
        1 => "/a`b",
        2 => &long_target,
        3 => "/with|pipe^caret",
        _ => *rng.pick(&["/", "/a/b?c=d", "*", "http://h.test/abs", "h.test:443", "/p%20q", "/?", "//double//slash"]),
    };
    let http10 = rng.chance(1, 3);
    // reuse the response field generator for the field lines
    let fields = gen_resp_head(rng, nf, false);
    let mut head = format!("{} {} HTTP/1.{}\r\n", method, target, if http10 { 0 } else { 1 }).into_bytes();
    let first = head.len();
    let body = fields.render();
    let sl = body.windows(2).position(|w| w == b"\r\n").unwrap() + 2;
    head.extend_from_slice(&body[sl..]);
    let hlen = head.len();
    let mut stream = head.clone();
    stream.extend_from_slice(&random_tail(rng));
    let want = expected_fields(&fields);
    let within = nf <= limit;
    let relation = if nf < limit { "below" } else if nf == limit { "at" } else { "above" };
    rec.ev(|| format!("request head: N={} fields={} len={} {:?}", limit, nf, hlen, esc_short(&head, 300)));
    for end in [hlen, stream.len()] {
        rec.call();
        let r = full_req(limit, &stream[..end]);
        rec.cov(&format!("request/N={}/fields-{}-limit/complete", limit, relation));
        match (within, r) {
            (true, Ok(Some((n, m, v10, f)))) => {
                if n != hlen || m != method || v10 != http10 {
                    return rec.fail("C20/request-line", format!("reported len {} method {} http10={}, sent len {} {} http10={}", n, m, v10, hlen, method, http10));
                }
                if let Err(e) = same_fields(&want, &f) {
                    return rec.fail("C20/request-fields", e);
                }
            }
            (true, other) => return rec.fail("C20/request-complete-head-not-parsed", format!("N={} fields={}: {:?}", limit, nf, other.map(|o| o.map(|v| v.0)))),
            (false, Err(Error::HttpParseTooManyHeaders)) => {}
            (false, other) => return rec.fail("C20/limit-not-enforced", format!("request N={} fields={}: {:?}", limit, nf, other.map(|o| o.map(|v| v.0)))),
        }
    }
    let mut bounds: Vec<usize> = vec![method.len(), method.len() + 1, first - 10, first - 2, first - 1, first];
    bounds.extend(head_boundaries(&fields).iter().filter(|b| **b >= sl).map(|b| b - sl + first));
    let mut pset = prefix_set(rng, hlen, &bounds, all);
    if lane {
        let step = (pset.len() / 16).max(1);
        pset = pset.into_iter().step_by(step).collect();
    }
    for p in pset {
        rec.call();
        let r = full_req(limit, &stream[..p]);
        rec.cov(&format!("request/N={}/prefix/{}", limit, if p < first { "in-request-line" } else { "in-fields" }));
        match (within, r) {
            (_, Ok(None)) => {}
            (false, Err(Error::HttpParseTooManyHeaders)) => {}
            (_, Ok(Some(_))) => return rec.fail("C20/request-complete-on-prefix", format!("N={} prefix {} of {} parsed as complete", limit, p, hlen)),
            (_, Err(e)) => return rec.fail("C20/request-error-on-prefix", format!("request N={} fields={} prefix {} of {} ({:?}) -> Err({:?})", limit, nf, p, hlen, esc_short(&stream[..p], 60), e)),
        }
    }
}

impl Property for P {
    fn id(&self) -> &'static str {
        "C20"
    }
    fn rule(&self) -> String {
        "generated request and response heads (0..N+2 fields for N in {0,1,4,128}, random token names, whitespace variants, empty values, obs-text, every standard method and several target forms; one response in six is a 100) rendered from a structure and followed by an arbitrary tail. try_parse_response / try_parse_request: complete head within the limit -> exactly (|H|, method|status, version, fields); above the limit -> HttpParseTooManyHeaders; every strict prefix (all for heads <= 700 bytes or thorough; boundaries +-2 otherwise) -> incomplete (or the limit error once it is exceeded), never complete, never another error. try_parse_partial_response on every prefix of a head within the limit: never an error; reported status/version right; every reported field is one the head contains and its whole line lies inside the prefix. class = parser x N x field count vs N x token class of the cut.".into()
    }
    fn assumptions(&self) -> Vec<String> {
        vec![
            "the request target is not part of the property and is not checked".into(),
            "for heads above the limit a strict prefix may report either incomplete or the limit error".into(),
                    ]
    }
    fn workloads(&self, tier: Tier) -> Vec<Workload> {
        vec![
            Workload::new("responses", tier.pick(3_000, 400_000), false, "response heads x prefixes, complete + partial parser"),
            Workload::new("requests", tier.pick(3_000, 400_000), false, "request heads x prefixes"),
            Workload::new("history", 240, true, "what was parsed before must not matter: one buffer reused for two heads of equal length; a complete request head after an abandoned longer incomplete one"),
            Workload::new("method-tokens", (TCHARS.len() * 4) as u64, true, "every token character in a method name, in four positions"),
        ]
    }
    fn run_case(&self, wl: &str, idx: u64, seed: u64, rec: &mut Rec) {
        let mut rng = Rng::derive(seed, wl, idx);
        let all = idx % 4 == 0;
        if wl == "history" {
            history_case(idx, rec)
        } else if wl == "method-tokens" {
            method_token_case(idx, rec)
        } else if wl == "responses" {
            response_case(&mut rng, all, rec)
        } else {
            request_case(&mut rng, all, rec)
        }
    }
    fn floors(&self, _tier: Tier) -> Vec<(String, u64)> {
        let mut v = vec![];
        for n in LIMITS {
            for rel in ["at", "above"] {
                v.push((format!("response/N={}/fields-{}-limit/complete", n, rel), 10));
                v.push((format!("request/N={}/fields-{}-limit/complete", n, rel), 10));
            }
            v.push((format!("response/N={}/*", n), 1000));
            v.push((format!("request/N={}/prefix/in-request-line", n), 100));
        }
        v.push(("partial/N=128/reported-some-fields".into(), 100));
        v.push(("partial/N=4/reported-some-fields".into(), 100));
        v
    }
}
