use crate::core::Property;

pub mod c01;
pub mod c02;
pub mod c03;
pub mod c06;
pub mod c07;
pub mod c08;
pub mod c09;
pub mod c10;
pub mod c11;
pub mod c12;
pub mod c13;
pub mod c14;
pub mod c15;
pub mod c16;
pub mod c17;
pub mod c04;
pub mod c05;
pub mod c18;
pub mod c19;
pub mod c20;

pub mod heads;

pub fn all() -> Vec<Box<dyn Property>> {
    vec![
        Box::new(c01::P),
        Box::new(c02::P),
        Box::new(c03::P),
        Box::new(c04::P),
        Box::new(c05::P),
        Box::new(c06::P),
        Box::new(c07::P),
        Box::new(c08::P),
        Box::new(c09::P),
        Box::new(c10::P),
        Box::new(c11::P),
        Box::new(c12::P),
        Box::new(c13::P),
        Box::new(c14::P),
        Box::new(c15::P),
        Box::new(c16::P),
        Box::new(c17::P),
        Box::new(c18::P),
        Box::new(c19::P),
        Box::new(c20::P),
    ]
}

pub fn by_id(id: &str) -> Option<Box<dyn Property>> {
    all().into_iter().find(|p| p.id().eq_ignore_ascii_case(id))
}
