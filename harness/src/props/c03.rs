//! C03 — chunked request body is a valid chunked encoding of exactly the consumed input.
use crate::core::{Property, Rec, Tier, Workload};
use crate::drive::{body_sender, BodySender};
use crate::json::esc_short;
use crate::rng::Rng;
use crate::wire::decode_chunked_strict;
use ureq_proto::Error;

pub struct P;

const INPUTS: [usize; 6] = [0, 1, 2, 5, 6, 7];
const OUTS: usize = 13; // 0..=12
const OPS: u64 = (INPUTS.len() * OUTS) as u64; // 78

/// Reference model of the sender: what has been emitted and consumed so far.
pub struct Model {
    pub terminated: bool,
    pub consumed: u64,
    pub data_sum: u64, // simple rolling checksum of decoded data vs consumed input
    pub in_sum: u64,
    pub terminators: u32,
}

fn roll(sum: u64, b: &[u8]) -> u64 {
    let mut s = sum;
    for &c in b {
        s = s.wrapping_mul(1099511628211).wrapping_add(c as u64 + 1);
    }
    s
}

/// Apply one write and check it against the model. `src` is the whole body stream, `pos` the
/// position of the next unconsumed byte. Returns false when the case should stop.
pub fn checked_write(s: &mut BodySender, m: &mut Model, src: &[u8], pos: &mut usize, k: usize, out: usize, rec: &mut Rec) -> bool {
    let input = &src[*pos..*pos + k];
    let mut buf = vec![0xEEu8; out];
    rec.call();
    let r = s.write(input, &mut buf);
    let fin = s.finished();
    rec.ev(|| format!("{}.write(in={}, out={}) -> {:?} finished={}", s.api(), k, out, r, fin));
    let was_terminated = m.terminated;
    match r {
        Err(e) => {
            if was_terminated && k > 0 {
                rec.cov("after-finish/nonempty-refused");
                // refused: good. nothing may have changed
            } else if was_terminated {
                rec.cov("after-finish/empty-err");
            } else if e == Error::OutputOverflow && out < 6 {
                rec.cov("err-overflow-tiny-buffer");
            } else {
                rec.fail(
                    "C03/unexpected-error",
                    format!("write(in={}, out={}) on an unfinished chunked body returned Err({:?})", k, out, e),
                );
                return false;
            }
        }
        Ok((c, p)) => {
            if c > k || p > out {
                rec.fail("C03/counts-exceed-offer", format!("write(in={}, out={}) -> ({}, {})", k, out, c, p));
                return false;
            }
            let emitted = &buf[..p];
            if was_terminated {
                if k > 0 {
                    rec.fail(
                        "C03/nonempty-write-accepted-after-finish",
                        format!("body was finished, write(in={}, out={}) -> Ok(({}, {}))", k, out, c, p),
                    );
                    return false;
                }
                if p > 0 || c > 0 {
                    rec.fail(
                        "C03/bytes-emitted-after-finish",
                        format!("body was finished, empty write emitted {:?}", esc_short(emitted, 40)),
                    );
                    return false;
                }
                rec.cov("after-finish/empty-noop");
            } else {
                // each call emits whole chunks, so the bytes of one call decode on their own
                let d = match decode_chunked_strict(emitted) {
                    Ok(d) => d,
                    Err(e) => {
                        rec.fail(
                            "C03/not-a-chunk-sequence",
                            format!("write(in={}, out={}) emitted {:?}: {}", k, out, esc_short(emitted, 60), e),
                        );
                        return false;
                    }
                };
                if d.data != input[..c] {
                    rec.fail(
                        "C03/data-differs-from-consumed-input",
                        format!(
                            "write(in={}, out={}) consumed {} bytes but the chunks carry {} bytes {:?}",
                            k,
                            out,
                            c,
                            d.data.len(),
                            esc_short(&d.data, 40)
                        ),
                    );
                    return false;
                }
                m.in_sum = roll(m.in_sum, &input[..c]);
                m.data_sum = roll(m.data_sum, &d.data);
                m.consumed += c as u64;
                *pos += c;
                if d.terminated {
                    m.terminators += 1;
                    if k > 0 {
                        rec.fail(
                            "C03/terminator-on-nonempty-write",
                            format!(
                                "write(in={}, out={}) emitted the terminating chunk {:?} while input was offered (consumed {})",
                                k,
                                out,
                                esc_short(emitted, 40),
                                c
                            ),
                        );
                        return false;
                    }
                    m.terminated = true;
                }
                // coverage: room left after what was written
                let room = out - p;
                let rc = if p == 0 { "nothing-written".to_string() } else if room > 6 { "room>6".to_string() } else { format!("room={}", room) };
                rec.cov(&format!("{}/{}/{}", if k == 0 { "finish" } else { "data" }, rc, if d.chunk_sizes.len() > 1 { "multi-chunk" } else { "le1-chunk" }));
            }
        }
    }
    if fin != m.terminated {
        rec.fail(
            if fin { "C03/finished-without-terminator" } else { "C03/terminator-emitted-but-not-finished" },
            format!(
                "after write(in={}, out={}): reported finished={} but terminator fully emitted={}",
                k, out, fin, m.terminated
            ),
        );
        return false;
    }
    true
}

fn history(idx: u64, len: usize, use_call: bool, rec: &mut Rec) {
    let mut s = match body_sender(None, false, use_call) {
        Ok(s) => s,
        Err(e) => {
            rec.fail("C03/setup", e);
            return;
        }
    };
    let src = [b'a', b'b', b'\r', b'\n', b'0', b'e', b'f', b'g', b'h', b'i', b'j', b'k', b'l', b'm', b'n', b'o', b'p', b'q', b'r', b's', b't', b'u', b'v', b'w', b'x', b'y', b'z', b'A'];
    let mut m = Model { terminated: false, consumed: 0, data_sum: 0, in_sum: 0, terminators: 0 };
    let mut pos = 0usize;
    let mut x = idx;
    for _ in 0..len {
        let op = x % OPS;
        x /= OPS;
        let k = INPUTS[(op as usize) / OUTS];
        let out = (op as usize) % OUTS;
        if !checked_write(&mut s, &mut m, &src, &mut pos, k, out, rec) {
            return;
        }
    }
}

fn random_history(rng: &mut Rng, rec: &mut Rec) {
    let use_call = rng.chance(1, 2);
    let explicit = rng.chance(1, 3);
    let variant: u32 = rng.below(8) as u32 | [0u32, 0, 0, 8, 16, 0, 0, 0][rng.below(8) as usize] | (rng.below(4) as u32) << 5 | [0u32, 0, 256, 512, 1024, 0, 2048, 0][rng.below(8) as usize]
        | if rng.chance(1, 4) { 8192 } else { 0 }
        | if rng.chance(1, 3) { 128 } else { 0 }
        | if rng.chance(1, 5) { 32768 } else { 0 };
    if variant & 32768 != 0 && !use_call && variant & 2048 == 0 && (explicit || variant & 4 != 0) && variant & 2 == 0 {
        // the caller added "transfer-encoding: gzip" in Prepare: the list stands on two lines that are not adjacent
        rec.cov("sender/coding-list-split-over-added-and-original");
    }
    if variant & 8192 != 0 && !use_call && variant & 2048 == 0 {
        // the head went out one line per write, the empty line alone into a roomy buffer
        rec.cov("sender/head-line-by-line");
    }
    let explicit = explicit || variant & 4 != 0;
    let mut s = match crate::drive::body_sender_ex(None, explicit && variant & 2 == 0, use_call, variant) {
        Ok(s) => s,
        Err(e) => {
            rec.fail("C03/setup", e);
            return;
        }
    };
    rec.cov(&format!("sender/{}{}{}", s.api(), if variant & 2 != 0 && !use_call { "/despite-method" } else { "" }, if variant & 4 != 0 && explicit && variant & 2 == 0 { "/chunked-and-content-length" } else { "" }));
    if let BodySender::Flow(f) = &mut s {
        if !f.is_chunked() {
            return rec.fail("C03/chunked-head-but-sized-writer", "the request head announces transfer-encoding: chunked but the body writer is not chunked".into());
        }
    }
    let src: Vec<u8> = crate::wire::payload(120_000, rng.below(200) as u8);
    let mut m = Model { terminated: false, consumed: 0, data_sum: 0, in_sum: 0, terminators: 0 };
    let mut pos = 0usize;
    let n_ops = rng.usize_in(1, 30);
    for _ in 0..n_ops {
        if rng.chance(1, 25) {
            if let BodySender::Flow(f) = &mut s {
                // direct writes only exist for sized bodies: on a chunked body the report is refused
                // and must leave no trace (the model simply goes on)
                rec.call();
                let amount = rng.usize_in(0, 20);
                let r = f.consume_direct_write(amount);
                rec.ev(|| format!("consume_direct_write({}) on a chunked body -> {:?}", amount, r));
                rec.cov("direct-write-report-on-chunked");
                if r.is_ok() {
                    return rec.fail("C03/direct-write-accepted-on-chunked", format!("consume_direct_write({}) succeeded on a chunked body", amount));
                }
                if f.can_proceed() != m.terminated {
                    return rec.fail("C03/direct-write-changed-state", "finished flag changed by a refused direct-write report".into());
                }
            }
        }
        if rng.chance(1, 6) {
            if let BodySender::Flow(f) = &mut s {
                // questions that must not change anything, asked at any time - after the end too
                rec.call();
                let chunked = f.is_chunked();
                let _ = f.calculate_max_input(rng.usize_in(0, 30_000));
                rec.cov(if m.terminated { "queries/after-the-end" } else { "queries/mid-body" });
                if !chunked {
                    return rec.fail("C03/query-changed-state", "is_chunked() turned false on a chunked body".into());
                }
                if f.can_proceed() != m.terminated {
                    return rec.fail("C03/query-changed-state", format!("after is_chunked()/calculate_max_input(): finished = {} but the terminator {} out", f.can_proceed(), if m.terminated { "is" } else { "is not" }));
                }
            }
        }
        let left = src.len() - pos;
        let mut k = match rng.below(10) {
            0 | 1 => 0,
            2 => rng.usize_in(1, 20),
            3 => rng.usize_in(10_230, 10_250),
            4 => rng.usize_in(20_470, 20_500),
            5 => rng.usize_in(10_241, 35_000),
            6 => *rng.pick(&[15usize, 16, 17, 255, 256, 257, 4095, 4096, 4097]),
            _ => rng.usize_in(1, 300),
        };
        k = k.min(left);
        let out = match rng.below(10) {
            0 => rng.usize_in(0, 12),
            1 | 2 => (k + 5 + rng.usize_in(0, 8)).saturating_sub(rng.usize_in(0, 2)),
            3 => k.saturating_sub(rng.usize_in(0, 10)),
            4 => rng.usize_in(10_240, 10_260),
            5 => rng.usize_in(13, 64),
            6 => k + 5 + (format!("{:x}", k.max(1)).len() - 1) + rng.usize_in(0, 6),
            7 => 1 << 16,
            _ => rng.usize_in(0, 400),
        };
        if !checked_write(&mut s, &mut m, &src, &mut pos, k, out, rec) {
            return;
        }
    }
    if m.in_sum != m.data_sum {
        rec.fail("C03/stream-checksum", "decoded data stream differs from consumed input stream".into());
    }
    if m.terminators > 1 {
        rec.fail("C03/terminator-repeated", format!("{} terminators", m.terminators));
    }
}

impl Property for P {
    fn id(&self) -> &'static str {
        "C03"
    }
    fn rule(&self) -> String {
        "every call of the chunked body writer is checked against a reference model: the bytes emitted by the call must strictly decode as complete non-empty chunks [+ terminator], decoded data == input reported consumed, terminator only on an empty write and only once, finished <=> terminator fully emitted, nothing accepted/emitted after finish. Histories: all sequences of length L over (input in {0,1,2,5,6,7}) x (output 0..=12) enumerated, plus seeded random histories with inputs up to 35 KB. A class = (finish|data) x (room left after the write 0..6,>6) x (one|many chunks); distinct_nontrivial counts classes observed.".into()
    }
    fn assumptions(&self) -> Vec<String> {
        vec![
            "an Err(OutputOverflow) for a buffer below 6 bytes is tolerated (the statement does not say Ok(0,0) vs error)".into(),
            "exhaustive within the stated alphabet and length only".into(),
        ]
    }
    fn workloads(&self, tier: Tier) -> Vec<Workload> {
        let l = tier.pick(3u32, 4u32);
        vec![
            Workload::new(
                if l == 3 { "hist3" } else { "hist4" },
                OPS.pow(l),
                true,
                format!("all {}-call histories over inputs {{0,1,2,5,6,7}} x outputs 0..=12, Flow API", l),
            ),
            Workload::new("hist3-call", OPS.pow(3), true, "all 3-call histories over the same alphabet, single-call (Call) API"),
            Workload::new("random", tier.pick(100_000, 6_000_000), false, "random histories (1..30 calls), inputs up to 35 KB, Flow and Call API"),
        ]
    }
    fn run_case(&self, wl: &str, idx: u64, seed: u64, rec: &mut Rec) {
        match wl {
            "hist3" => history(idx, 3, false, rec),
            "hist4" => history(idx, 4, false, rec),
            "hist3-call" => history(idx, 3, true, rec),
            _ => {
                let mut rng = Rng::derive(seed, "C03/random", idx);
                random_history(&mut rng, rec)
            }
        }
    }
    fn floors(&self, _tier: Tier) -> Vec<(String, u64)> {
        vec![
            ("finish/*".into(), 1000),
            ("data/room=0*".into(), 100),
            ("data/room=5*".into(), 100),
            ("after-finish/*".into(), 1000),
            ("sender/flow/chunked-and-content-length".into(), 100),
            ("sender/call/chunked-and-content-length".into(), 100),
            ("hook:tick:write_chunk".into(), 1000),
        ]
    }
}
