//! C10 — connection-reuse verdict is exactly the disjunction of the close conditions.
use crate::core::{Property, Rec, Tier, Workload};
use crate::drive::*;
use crate::model::*;
use crate::rng::Rng;
use crate::wire::*;

pub struct P;

const MV: [(&str, Ver); 11] = [
    ("CONNECT", Ver::V11),
    ("OPTIONS", Ver::V11),
    ("PATCH", Ver::V11),
    ("GET", Ver::V11),
    ("GET", Ver::V10),
    ("HEAD", Ver::V11),
    ("HEAD", Ver::V10),
    ("DELETE", Ver::V11),
    ("POST", Ver::V11),
    ("POST", Ver::V10),
    ("PUT", Ver::V11),
];
const REQ_CONN: [&[&[u8]]; 5] = [&[], &[b"close"], &[b"keep-alive"], &[b"keep-alive", b"close"], &[b"abcde"]];
const HS: [&str; 5] = ["none", "got-100", "gave-up", "refused-bare", "refused-with-fields"];
const STATUS: [u16; 6] = [200, 302, 404, 307, 102, 417];
const FRAMING: [&str; 4] = ["length-3", "chunked", "bare", "length-0"];
const RESP_CONN: [&[&[u8]]; 6] = [&[], &[b"close"], &[b"keep-alive"], &[b"keep-alive", b"close"], &[b"close", b"keep-alive"], &[b"xxxxx"]];

/// Framing cells the statement of C06 leaves open (3xx with only a non-chunked Transfer-Encoding,
/// HTTP/1.0 3xx with only `chunked`): whatever the flow decides there, *if it reports the body as
/// close-delimited* the connection must close, at Redirect and at Cleanup alike.
fn open_framing_cell(idx: u64, rec: &mut Rec) {
    let mut x = idx as usize;
    let mut take = |n: usize| {
        let v = x % n;
        x /= n;
        v
    };
    let method = ["GET", "POST", "DELETE"][take(3)];
    let status = [301u16, 302, 303, 307, 308, 399][take(6)];
    let (http10, te): (bool, &[u8]) = [(false, &b"gzip"[..]), (false, &b"identity"[..]), (true, &b"chunked"[..]), (false, &b"chunked, gzip"[..])][take(4)];
    let with_location = take(2) == 1;
    let mut head = RespHead::new(http10, status);
    head.fields.push(Field::new("Transfer-Encoding", te));
    if with_location {
        head.fields.push(Field::new("Location", b"/n"));
    }
    let mut stream = head.render();
    stream.extend_from_slice(b"some bytes until the connection closes");
    let cfg = ReqCfg::new(method, "http://h.test/x");
    let flow = match build_flow(&cfg) {
        Ok(f) => f,
        Err(e) => return rec.fail("C10/setup", format!("{:?}", e)),
    };
    let body: &[u8] = if needs_body(method) { b"abc" } else { b"" };
    let mut d = Driver::new(flow, &cfg, body, &stream, Scen::Decide, Sched::big());
    d.hostile = true;
    let end = d.run(rec);
    rec.ev(|| format!("{} <- {} {} TE={:?}: {:?} mode={:?} verdicts={:?}", method, status, if http10 { "HTTP/1.0" } else { "HTTP/1.1" }, crate::json::esc(te), end, d.body_mode, d.verdicts));
    if end != Step::Done {
        rec.cov("open-framing/not-completed");
        return;
    }
    let close_delimited = d.body_mode == Some(Mode::Close);
    rec.cov(&format!("open-framing/{}", if close_delimited { "reported-close-delimited" } else { "other" }));
    if close_delimited {
        for (state, mc, why) in &d.verdicts {
            if !*mc || why.is_none() {
                return rec.fail(
                    "C10/close-delimited-body-offered-for-reuse",
                    format!("{} {} TE={:?}: the flow reported a close-delimited body, yet at {} must_close={} reason={:?}", method, status, crate::json::esc(te), state, mc, why),
                );
            }
        }
    }
    if d.verdicts.len() == 2 && d.verdicts[0].1 != d.verdicts[1].1 {
        rec.fail("C10/redirect-and-cleanup-disagree", format!("{:?}", d.verdicts));
    }
}

pub fn check_verdict(d: &Driver, truth: &Truth, rec: &mut Rec, prefix: &str) -> bool {
    if d.verdicts.is_empty() {
        rec.fail(&format!("{}/no-verdict", prefix), "exchange finished without a verdict".into());
        return false;
    }
    let bits: Vec<&str> = (0..5).filter(|i| truth.close_bits[*i]).map(|i| BIT_NAMES[i]).collect();
    for (state, mc, why) in &d.verdicts {
        if *mc != truth.must_close {
            rec.fail(
                &format!("{}/verdict-{}", prefix, if truth.must_close { "reuse-offered-but-must-close" } else { "close-demanded-without-condition" }),
                format!("{}: must_close_connection() = {} but conditions holding = {:?}", state, mc, bits),
            );
            return false;
        }
        if why.is_some() != *mc {
            rec.fail(&format!("{}/reason-presence", prefix), format!("{}: must_close = {} but close_reason() = {:?}", state, mc, why));
            return false;
        }
        if let Some(text) = why {
            match reason_bit(text) {
                Some(b) => {
                    if !truth.close_bits[b] {
                        rec.fail(
                            &format!("{}/reason-names-false-condition", prefix),
                            format!("{}: reason {:?} names {} which does not hold (holding: {:?})", state, text, BIT_NAMES[b], bits),
                        );
                        return false;
                    }
                }
                None => rec.stat("reason-text-not-recognised", 1),
            }
        }
    }
    true
}

fn cell(idx: u64, seed: u64, variant: u64, rec: &mut Rec) {
    let mut x = idx as usize;
    let mut take = |n: usize| {
        let v = x % n;
        x /= n;
        v
    };
    let (method, ver) = MV[take(MV.len())];
    let req_conn = REQ_CONN[take(5)];
    let hs = HS[take(5)];
    let http10_resp = take(2) == 1;
    let status = STATUS[take(STATUS.len())];
    let framing = FRAMING[take(4)];
    let resp_conn = RESP_CONN[take(6)];
    let unsolicited = take(2);
    let body_method = needs_body(method);
    if !body_method && hs != "none" {
        return;
    }
    if hs == "refused-bare" && (framing != "bare" || !resp_conn.is_empty()) {
        return;
    }
    if http10_resp && framing == "chunked" && is_redirect_status(status) {
        return; // C06 leaves an HTTP/1.0 3xx whose only framing header is chunked open
    }
    if unsolicited == 1 && (hs == "refused-bare" || hs == "refused-with-fields" || hs == "gave-up") {
        return; // with gave-up the first 100 would be the late one: C11's business
    }
    let mut cfg = ReqCfg::new(method, "http://h.test/x");
    cfg.ver = ver;
    for v in req_conn {
        cfg.orig.push(("connection".into(), v.to_vec()));
    }
    if idx / 11 % 3 == 1 {
        // the caller adds an unrelated header in the Prepare state: no close condition comes or goes
        cfg.added.push((if idx % 2 == 0 { "x-added" } else { "cookie" }.into(), b"1".to_vec()));
        rec.cov("caller-added-header-in-prepare");
    }
    let mut req_body = vec![];
    if body_method {
        req_body = b"hello world".to_vec();
        if idx % 3 == 2 {
            // an empty body with its length declared
            req_body.clear();
            cfg.orig.push(("content-length".into(), b"0".to_vec()));
        } else if idx % 2 == 0 {
            cfg.orig.push(("content-length".into(), b"11".to_vec()));
        }
        if hs != "none" {
            cfg.orig.push(("expect".into(), b"100-continue".to_vec()));
        }
    }
    let mut head = RespHead::new(http10_resp, status);
    if hs != "refused-bare" {
        head.fields.push(Field::new("Server", b"t"));
        if is_redirect_status(status) {
            head.fields.push(Field::new("Location", b"/n"));
        }
        if idx % 4 == 1 {
            // a field with an empty value in front of the Connection fields: what comes behind it still counts
            head.fields.push(Field::new("X-Trace", b""));
            rec.cov("response/empty-valued-field-before-connection");
        }
        for v in resp_conn {
            head.fields.push(Field::new("Connection", v));
        }
    }
    let ex = Exchange {
        cfg,
        req_body,
        handshake: match hs {
            "none" => Handshake::None,
            "got-100" => Handshake::Got100,
            "gave-up" => Handshake::GiveUp(1 + (idx as usize % 3)),
            _ => Handshake::Refused,
        },
        interim_reason: "Continue",
        head,
        body: match framing {
            "length-3" => BodyPlan::Length(b"abc".to_vec()),
            "chunked" => BodyPlan::Chunked(
                ChunkPlan {
                    chunks: vec![ChunkSpec { size: 3, upper: false, zeros: 0, ext: None }],
                    ..Default::default()
                },
                1,
            ),
            "length-0" => BodyPlan::LengthZero,
            _ => BodyPlan::Bare,
        },
        close_data: b"until close".to_vec(),
        extra_interim: 0,
        unsolicited_100: unsolicited,
    };
    let (stream, truth) = match ex.render() {
        Some(v) => v,
        None => return,
    };
    let mut rng = Rng::derive(seed, "C10", idx * 8 + variant);
    let sched = if variant == 0 { Sched::big() } else { Sched::random(&mut rng, true) };
    rec.ev(|| format!("request: {}", ex.cfg.describe()));
    rec.ev(|| format!("server: {:?}", crate::json::esc_short(&stream, 200)));
    rec.ev(|| format!("handshake={} schedule: {}", hs, sched.describe()));
    rec.ev(|| format!("model: conditions {:?} => must_close={}", truth.close_bits, truth.must_close));
    let flow = match build_flow(&ex.cfg) {
        Ok(f) => f,
        Err(e) => return rec.fail("C10/setup", format!("{:?}", e)),
    };
    let mut d = Driver::new(flow, &ex.cfg, &ex.req_body, &stream, truth.scen, sched);
    let end = d.run(rec);
    if end != Step::Done {
        return rec.fail("C10/exchange-did-not-complete", format!("{:?}; {}", end, d.summary()));
    }
    let nbits = truth.close_bits.iter().filter(|b| **b).count();
    let vec_id: String = truth.close_bits.iter().map(|b| if *b { '1' } else { '0' }).collect();
    rec.cov(&format!("conditions={}/{}", vec_id, truth.terminal));
    if unsolicited == 1 {
        rec.cov("after-unsolicited-100");
    }
    if http10_resp && framing == "chunked" {
        rec.cov("http10-response-with-ignored-chunked");
    }
    rec.stat(
        match nbits {
            0 => "exchanges-with-0-conditions",
            1 => "exchanges-with-1-condition",
            2 => "exchanges-with-2-conditions",
            3 => "exchanges-with-3-conditions",
            4 => "exchanges-with-4-conditions",
            _ => "exchanges-with-5-conditions",
        },
        1,
    );
    if d.verdicts.len() != if truth.terminal == "Redirect" { 2 } else { 1 } {
        return rec.fail("C10/terminal-path", format!("expected terminal {}, verdicts seen {:?}", truth.terminal, d.verdicts));
    }
    check_verdict(&d, &truth, rec, "C10");
}

/// A refusal seen while awaiting 100 closes THAT connection. The request the refusing redirect leads to is an exchange
/// of its own: with none of the five conditions holding there, its connection must be offered for reuse.
fn after_refusal_cell(idx: u64, rec: &mut Rec) {
    use ureq_proto::client::flow::{Await100Result, RedirectAuthHeaders, SendRequestResult};
    let status = [301u16, 302, 303][(idx % 3) as usize];
    let loc = ["/moved", "http://other.test/m", "//h.test/again"][(idx / 3 % 3) as usize];
    let method = ["POST", "PUT"][(idx / 9 % 2) as usize];
    let shown_in_await = idx / 18 % 2 == 0;
    let cfg = ReqCfg::new(method, "http://h.test/up").h("expect", b"100-continue").h("content-length", b"5");
    let refusal = format!("HTTP/1.1 {} Moved\r\nLocation: {}\r\nContent-Length: 0\r\n\r\n", status, loc).into_bytes();
    let res = (|| -> Result<(bool, Option<&'static str>, bool, Option<&'static str>), String> {
        let mut f = build_flow(&cfg).map_err(|e| format!("{:?}", e))?.proceed();
        write_head_big(&mut f).map_err(|e| format!("{:?}", e))?;
        let mut a = match f.proceed().map_err(|e| format!("{:?}", e))?.ok_or("none")? {
            SendRequestResult::Await100(a) => a,
            _ => return Err("no Await100".into()),
        };
        let r = if shown_in_await {
            a.try_read_100(&refusal).map_err(|e| format!("{:?}", e))?;
            match a.proceed().map_err(|e| format!("{:?}", e))? {
                Await100Result::RecvResponse(r) => r,
                _ => return Err("the refusal did not lead to the receive state".into()),
            }
        } else {
            // the caller gave up waiting and sent the body; the redirect is an ordinary answer then
            match a.proceed().map_err(|e| format!("{:?}", e))? {
                Await100Result::SendBody(mut s) => {
                    let mut buf = [0u8; 64];
                    s.write(b"hello", &mut buf).map_err(|e| format!("{:?}", e))?;
                    s.proceed().ok_or("body not finished")?
                }
                _ => return Err("giving up did not lead to the body".into()),
            }
        };
        let (end, ..) = fast_response(r, &refusal)?;
        let mut red = match end {
            End::Redirect(r) => r,
            End::Cleanup(_) => return Err("no redirect state".into()),
        };
        let first = (red.must_close_connection(), red.close_reason());
        let nf = red.as_new_flow(RedirectAuthHeaders::Never).map_err(|e| format!("{:?}", e))?.ok_or("not followed")?;
        let mut s = nf.proceed();
        write_head_big(&mut s).map_err(|e| format!("{:?}", e))?;
        let rr = to_recv_response(s, b"")?;
        let (end, ..) = fast_response(rr, b"HTTP/1.1 200 OK\r\nContent-Length: 2\r\n\r\nok")?;
        match end {
            End::Cleanup(c) => Ok((first.0, first.1, c.must_close_connection(), c.close_reason())),
            End::Redirect(_) => Err("200 led to the redirect state".into()),
        }
    })();
    rec.call();
    rec.ev(|| format!("{} with Expect answered {} Location {} ({}), followed, answered 200 -> {:?}", method, status, loc, if shown_in_await { "seen while awaiting" } else { "after the body" }, res));
    match res {
        Err(e) => rec.fail("C10/setup", e),
        Ok((first_close, _, second_close, second_reason)) => {
            rec.cov(if shown_in_await { "after-refusal/seen-while-awaiting" } else { "after-refusal/after-the-body" });
            if first_close != shown_in_await {
                return rec.fail(
                    if first_close { "C10/verdict-close-demanded-without-condition" } else { "C10/verdict-reuse-offered-but-must-close" },
                    format!("the {} exchange: must_close = {} at Redirect", if shown_in_await { "refused" } else { "completed" }, first_close),
                );
            }
            if second_close || second_reason.is_some() {
                rec.fail(
                    "C10/verdict-close-demanded-without-condition",
                    format!("the request the redirect led to (GET, HTTP/1.1, no Connection field either way, 200 with a length): must_close = {} reason = {:?} - no condition holds in this exchange", second_close, second_reason),
                );
            }
        }
    }
}

/// A request that says `Connection: close` is redirected. Whether the request the redirect leads to still says so
/// is the crate's business (it inherits the original's fields); the verdict of THAT exchange follows what that
/// request carried on the wire - read back from the bytes written - and nothing else (no other condition holds).
fn close_across_redirect_cell(idx: u64, rec: &mut Rec) {
    use ureq_proto::client::flow::RedirectAuthHeaders;
    let status = [301u16, 302, 303, 307, 308][(idx % 5) as usize];
    let loc = ["/moved", "http://other.test/m", "//h.test/again", "https://h.test/up", "http://h.test:8080/up", "//other.test"][(idx / 5 % 6) as usize];
    let method = ["GET", "HEAD", "OPTIONS"][(idx / 30 % 3) as usize];
    let own = ["close", "keep-alive", "upgrade"][(idx / 90 % 3) as usize];
    let cfg = ReqCfg::new(method, "http://h.test/up").h("connection", own.as_bytes());
    let redirect = format!("HTTP/1.1 {} Moved\r\nLocation: {}\r\nContent-Length: 0\r\n\r\n", status, loc).into_bytes();
    let res = (|| -> Result<(bool, Vec<Vec<u8>>, bool, Option<&'static str>), String> {
        let r = fast_to_recv(&cfg)?;
        let (end, ..) = fast_response(r, &redirect)?;
        let mut red = match end {
            End::Redirect(r) => r,
            End::Cleanup(_) => return Err("no redirect state".into()),
        };
        let first = red.must_close_connection();
        let nf = red.as_new_flow(RedirectAuthHeaders::Never).map_err(|e| format!("{:?}", e))?.ok_or("not followed")?;
        let mut s = nf.proceed();
        let wire = write_head_big(&mut s).map_err(|e| format!("{:?}", e))?;
        let head = parse_request_head_strict(&wire)?;
        let conn: Vec<Vec<u8>> = head.headers.iter().filter(|(n, _)| n.eq_ignore_ascii_case("connection")).map(|(_, v)| v.clone()).collect();
        let rr = to_recv_response(s, b"")?;
        let (end, ..) = fast_response(rr, b"HTTP/1.1 200 OK\r\nContent-Length: 2\r\n\r\nok")?;
        match end {
            End::Cleanup(c) => Ok((first, conn, c.must_close_connection(), c.close_reason())),
            End::Redirect(_) => Err("200 led to the redirect state".into()),
        }
    })();
    rec.call();
    rec.ev(|| format!("{} connection: {} answered {} Location {}, followed, answered 200 -> {:?}", method, own, status, loc, res));
    match res {
        Err(e) => rec.fail("C10/setup", e),
        Ok((first_close, conn, second_close, second_reason)) => {
            if first_close != (own == "close") {
                return rec.fail(
                    if first_close { "C10/verdict-close-demanded-without-condition" } else { "C10/verdict-reuse-offered-but-must-close" },
                    format!("the redirected exchange (request said connection: {}): must_close = {} at Redirect", own, first_close),
                );
            }
            let carried = conn.iter().any(|v| v == b"close");
            rec.cov(&format!("close-across-redirect/second-request-{}", if carried { "says-close" } else { "does-not-say-close" }));
            if second_close != carried || second_reason.is_some() != carried {
                rec.fail(
                    if second_close { "C10/verdict-close-demanded-without-condition" } else { "C10/verdict-reuse-offered-but-must-close" },
                    format!("the request the redirect led to carried Connection fields {:?} on the wire (HTTP/1.1, 200 with a length, no other condition): must_close = {} reason = {:?}", conn.iter().map(|v| String::from_utf8_lossy(v).to_string()).collect::<Vec<_>>(), second_close, second_reason),
                );
            }
        }
    }
}

/// The opt-in for truncated redirect heads must not touch a head that is complete, however its lines end: a 3xx whose
/// line ends are bare LF (accepted by the parser) is complete, nothing was lost, and no condition holds.
fn opt_in_complete_cell(idx: u64, rec: &mut Rec) {
    let status = [301u16, 302, 307, 200][(idx % 4) as usize];
    let eol = ["\r\n", "\n"][(idx / 4 % 2) as usize];
    let last = ["\r\n", "\n"][(idx / 8 % 2) as usize];
    let method = ["GET", "HEAD"][(idx / 16 % 2) as usize];
    let head = format!("HTTP/1.1 {} X{eol}Server: t{eol}Location: /moved{eol}Content-Length: 0{eol}{last}", status, eol = eol, last = last);
    let mut f = super::c05::recv_flow(method);
    f.allow_partial_redirect(true);
    rec.call();
    let res = fast_response(f, head.as_bytes());
    rec.ev(|| format!("{} allow_partial_redirect(true); complete head {:?} -> {:?}", method, head, res.as_ref().map(|(_, o, n, _)| (o.status, *n)).map_err(|e| e.clone())));
    match res {
        Err(e) => rec.fail("C10/setup", format!("complete head with {:?} line ends: {}", eol, e)),
        Ok((end, _, consumed, _)) => {
            let (mc, why) = match &end {
                End::Redirect(r) => (r.must_close_connection(), r.close_reason()),
                End::Cleanup(c) => (c.must_close_connection(), c.close_reason()),
            };
            rec.cov(&format!("opt-in-complete/{}", if eol == "\n" || last == "\n" { "bare-lf" } else { "crlf" }));
            if consumed != head.len() {
                return rec.fail("C10/setup", format!("consumed {} of {}", consumed, head.len()));
            }
            if mc || why.is_some() {
                rec.fail("C10/verdict-close-demanded-without-condition", format!("a complete {} head (line ends {:?}/{:?}) under the opt-in: must_close = {} reason = {:?} - nothing was lost and no condition holds", status, eol, last, mc, why));
            }
        }
    }
}

/// Opt-in truncated redirects: the message boundary is lost, so whatever Connection field the
/// truncated head carries, the connection must never be offered for reuse.
fn partial_redirect_cell(idx: u64, rec: &mut Rec) {
    use ureq_proto::client::flow::RecvResponseResult;
    let mut x = idx as usize;
    let mut take = |n: usize| {
        let v = x % n;
        x /= n;
        v
    };
    let method = ["GET", "POST", "HEAD"][take(3)];
    let status = [301u16, 302, 307, 308][take(4)];
    const KA: &[u8] = b"keep-alive";
    const CL: &[u8] = b"close";
    const UP: &[u8] = b"Upgrade";
    let conn: &[&[u8]] = [&[][..], &[KA][..], &[CL][..], &[KA, UP][..]][take(4)];
    let conn_before_location = take(2) == 1;
    let cut_kind = take(4);
    let mut head = RespHead::new(false, status);
    head.fields.push(Field::new("Server", b"t"));
    if conn_before_location {
        for c in conn {
            head.fields.push(Field::new("Connection", c));
        }
    }
    head.fields.push(Field::new("Location", b"/moved"));
    let mut after_loc = head.render().len() - 2;
    if !conn_before_location {
        for c in conn {
            head.fields.push(Field::new("Connection", c));
        }
        after_loc = head.render().len() - 2;
    }
    head.fields.push(Field::new("X-Later", b"lost"));
    let full = head.render();
    let cut = match cut_kind {
        0 => after_loc,
        1 => after_loc + 4,
        2 => full.len() - 2,
        _ => full.len() - 1,
    };
    let cfg = ReqCfg::new(method, "http://h.test/x");
    let mut f = match fast_to_recv(&cfg) {
        Ok(f) => f,
        Err(e) => return rec.fail("C10/setup", e),
    };
    f.allow_partial_redirect(true);
    rec.call();
    let r = f.try_response(&full[..cut]);
    rec.ev(|| format!("{} allow_partial_redirect(true); try_response({:?}) -> {:?}", method, crate::json::esc(&full[..cut]), r.as_ref().map(|(n, r)| (*n, r.as_ref().map(|x| x.status().as_u16())))));
    match r {
        Ok((_, Some(_))) => {}
        _ => {
            rec.cov("partial-redirect/not-accepted");
            return;
        }
    }
    rec.cov(&format!("partial-redirect/accepted/own-connection-fields={}", conn.len()));
    let (mc, why, mc2) = match f.proceed() {
        Some(RecvResponseResult::Redirect(r)) => {
            let a = r.must_close_connection();
            let w = r.close_reason();
            let c = r.proceed();
            (a, w, c.must_close_connection())
        }
        Some(RecvResponseResult::Cleanup(c)) => (c.must_close_connection(), c.close_reason(), c.must_close_connection()),
        Some(RecvResponseResult::RecvBody(_)) => return rec.fail("C10/partial-redirect-body", "a truncated redirect without framing fields went to the body state".into()),
        None => return rec.fail("C10/partial-redirect-not-ready", "response returned but the flow cannot proceed".into()),
    };
    if !mc || !mc2 || why.is_none() {
        rec.fail(
            "C10/lost-boundary-offered-for-reuse",
            format!(
                "truncated redirect accepted by opt-in (cut at {} of {}, own Connection fields {:?}): must_close at Redirect={} at Cleanup={} reason={:?}",
                cut,
                full.len(),
                conn.iter().map(|c| crate::json::esc(c)).collect::<Vec<_>>(),
                mc,
                mc2,
                why
            ),
        );
    }
}

const CELLS: u64 = 11 * 5 * 5 * 2 * 6 * 4 * 6 * 2;

impl Property for P {
    fn id(&self) -> &'static str {
        "C10"
    }
    fn rule(&self) -> String {
        "exhaustive product realising the five close conditions: (method, request version) x request Connection {absent, close, keep-alive, two fields, some other token} x Expect handshake {none, 100 received, gave up, refused bare, refused with fields} x response version x status {200, 302, 404, 307, 102, 417} x framing {length, chunked, bare, zero length} x response Connection {absent, close, keep-alive, two fields either order, some other token} x {no, one} unsolicited 100 Continue in front of the final response; every cell is a full exchange driven to Cleanup (through Redirect for 3xx), once with one-shot I/O and again under random segmentation schedules; must_close_connection()/close_reason() at Redirect and Cleanup are compared with the disjunction computed from the description. Methods: GET/HEAD/DELETE/POST/PUT/CONNECT/OPTIONS/PATCH; a third of the cells add an unrelated header through Flow::header() in Prepare. class = condition bit-vector x exit path. after-refusal-by-redirect: the request a refusing 3xx leads to is an exchange of its own and ends reusable. close-across-redirect: a request with its own Connection field redirected to the same or another authority - the next exchange closes exactly if the request written for it says close. opt-in-complete-heads: a complete head (CRLF or bare LF) under the opt-in closes only if a condition holds. A quarter of the cells put an empty-valued field in front of the Connection fields.".into()
    }
    fn assumptions(&self) -> Vec<String> {
        vec![
            "a reason text is mapped to a condition by keyword; an unrecognised text is counted (statistics) and not judged".into(),
            "close-delimited is impossible on the redirect path by C06 (3xx without framing has no body), so those vectors only occur with exit path Cleanup".into(),
            "the opt-in truncated-redirect workload relies on the 'in particular' clause: a connection whose message boundary was lost must close whatever Connection fields the truncated head carries; if the opt-in does not accept the head nothing is judged".into(),
        ]
    }
    fn workloads(&self, tier: Tier) -> Vec<Workload> {
        vec![
            Workload::new("oneshot", CELLS, true, "every cell, one-shot I/O"),
            Workload::new("scheduled", CELLS * tier.pick(2, 60), false, "every cell again under seeded random I/O schedules"),
            Workload::new("open-framing-cells", 3 * 6 * 4 * 2, true, "3xx whose framing the statement leaves open: if the flow calls the body close-delimited it must close"),
            Workload::new("after-refusal-by-redirect", 36, true, "Expect refused by a 301/302/303 (seen while awaiting, or after giving up): the request it leads to is an exchange of its own and ends reusable"),
            Workload::new("close-across-redirect", 5 * 6 * 3 * 3, true, "a request with its own Connection field is redirected (same and other authority): the verdict of the next exchange follows what that request carried on the wire"),
            Workload::new("opt-in-complete-heads", 32, true, "allow_partial_redirect(true) and complete heads with CRLF or bare-LF line ends: nothing was lost, no condition holds"),
            Workload::new("partial-redirect-opt-in", 3 * 4 * 4 * 2 * 4, true, "allow_partial_redirect(true): truncated 3xx heads with their own Connection fields; the lost boundary must force close"),
        ]
    }
    fn run_case(&self, wl: &str, idx: u64, seed: u64, rec: &mut Rec) {
        if wl == "oneshot" {
            cell(idx, seed, 0, rec)
        } else if wl == "open-framing-cells" {
            open_framing_cell(idx, rec)
        } else if wl == "partial-redirect-opt-in" {
            partial_redirect_cell(idx, rec)
        } else if wl == "after-refusal-by-redirect" {
            after_refusal_cell(idx, rec)
        } else if wl == "close-across-redirect" {
            close_across_redirect_cell(idx, rec)
        } else if wl == "opt-in-complete-heads" {
            opt_in_complete_cell(idx, rec)
        } else {
            cell(idx % CELLS, seed, 1 + idx / CELLS, rec)
        }
    }
    fn floors(&self, _tier: Tier) -> Vec<(String, u64)> {
        let mut v = vec![("partial-redirect/accepted/*".to_string(), 50), ("open-framing/*".to_string(), 100), ("after-unsolicited-100".to_string(), 1000), ("close-across-redirect/*".to_string(), 30), ("http10-response-with-ignored-chunked".to_string(), 100)];
        // all 32 vectors must occur on the Cleanup path, the 16 without close-delimited on Redirect
        for m in 0..32u32 {
            let id: String = (0..5).map(|i| if m & (1 << i) != 0 { '1' } else { '0' }).collect();
            v.push((format!("conditions={}/Cleanup", id), 2));
            if m & 16 == 0 {
                v.push((format!("conditions={}/Redirect", id), 2));
            }
        }
        v
    }
}
