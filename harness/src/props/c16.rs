//! C16 — headers the caller adds before sending always reach the wire.
use super::heads::*;
use crate::core::{Property, Rec, Tier, Workload};
use crate::drive::*;
use crate::json::esc;
use crate::rng::Rng;
use crate::wire::*;
use ureq_proto::client::flow::state::Prepare;
use ureq_proto::client::flow::RedirectAuthHeaders;

pub struct P;

const NAMES: [&str; 13] = ["x-null", "cookie", "authorization", "x-added", "Cookie", "accept", "connection", "x-added", "AUTHORIZATION", "user-agent", "x-b3-traceid", "cookie", "if-match"];

/// Add tagged headers to a flow in its prepare state. Returns what was added (lower-case names).
fn add_headers(flow: &mut F<Prepare>, rng: &mut Rng, hop: usize, has_host: bool, may_frame: bool, rec: &mut Rec) -> Option<Vec<(String, Vec<u8>)>> {
    let n = match rng.below(8) {
        0 => 0,
        1 => rng.usize_in(40, 60),
        _ => rng.usize_in(1, 6),
    };
    let mut added = vec![];
    let mut host_added = has_host;
    let mut framed = !may_frame;
    let mut te_added = false;
    for i in 0..n {
        let mut name = *rng.pick(&NAMES);
        match rng.below(12) {
            0 if !host_added => {
                name = "host";
                host_added = true;
            }
            1 if !framed => {
                name = "content-length";
                framed = true;
            }
            2 if !te_added => {
                // a coding the library does not apply itself: it is the caller's header all the same
                name = "transfer-encoding";
                te_added = true;
            }
            _ => {}
        }
        let mut value = format!("a{}-{}-", hop, i).into_bytes();
        if rng.chance(1, 10) {
            // a cookie jar / credential store handing back exactly what the original request carried
            match name.to_ascii_lowercase().as_str() {
                "cookie" => value = b"o-cookie".to_vec(),
                "authorization" => value = b"o-auth".to_vec(),
                "accept" => value = b"o-accept".to_vec(),
                _ => {}
            }
        }
        if rng.chance(1, 12) {
            name = "expect";
            value = b"100-continue".to_vec();
        }
        match name {
            "transfer-encoding" => {
                value = b"gzip".to_vec();
                rec.cov("added/transfer-encoding-gzip");
            }
            // (now and then padded with zeros to a fixed width)
            "content-length" => value = if rng.chance(1, 3) { b"00000000000000000003".to_vec() } else { b"3".to_vec() },
            "host" => value = format!("added{}.test", hop).into_bytes(),
            _ => {
                if rng.chance(1, 6) {
                    value.extend_from_slice(&[0xe9, 0xff]);
                }
            }
        }
        rec.call();
        if let Err(e) = flow.header(name, ureq_proto::http::HeaderValue::from_bytes(&value).unwrap()) {
            rec.fail("C16/header-refused", format!("header({:?}, {:?}) -> Err({:?})", name, esc(&value), e));
            return None;
        }
        added.push((name.to_ascii_lowercase(), value));
    }
    Some(added)
}

fn check(head: &[u8], added: &[(String, Vec<u8>)], eff: &Eff, policy: RedirectAuthHeaders, rec: &mut Rec) -> bool {
    let h = match parse_request_head_strict(head) {
        Ok(h) => h,
        Err(e) => {
            rec.fail("C16/head-unparseable", e);
            return false;
        }
    };
    let wire: Vec<(String, Vec<u8>)> = h.headers.iter().map(|(n, v)| (n.to_ascii_lowercase(), v.clone())).collect();
    let pol = if policy == RedirectAuthHeaders::Never { "never" } else { "same-host" };
    // every added header, in order
    let mut pos = 0usize;
    let mut last_added_at = None;
    for (n, v) in added {
        let class = match n.as_str() {
            "cookie" | "authorization" | "content-length" | "host" | "connection" | "expect" => n.as_str(),
            _ => "other",
        };
        rec.cov(&format!("{}/depth{}/{}", class, eff.depth, pol));
        match wire[pos..].iter().position(|(wn, wv)| wn == n && wv == v) {
            Some(i) => {
                pos += i + 1;
                last_added_at = Some(pos - 1);
            }
            None => {
                let anywhere = wire.iter().any(|(wn, wv)| wn == n && wv == v);
                rec.fail(
                    &format!("C16/{}/{}", if anywhere { "added-header-out-of-order" } else { "added-header-missing" }, class),
                    format!(
                        "flow at redirect depth {} (policy {}): header {}: {:?} added in the prepare state {} on the wire ({} added, wire has {:?})",
                        eff.depth,
                        pol,
                        n,
                        esc(v),
                        if anywhere { "is out of order" } else { "is missing" },
                        added.len(),
                        fmt_fields(&wire)
                    ),
                );
                return false;
            }
        }
    }
    // ahead of the original headers
    if let Some(la) = last_added_at {
        if let Some(first_orig) = wire.iter().position(|(n, v)| v.starts_with(b"o-") && !added.iter().any(|(an, av)| an == n && av == v)) {
            if first_orig < la {
                rec.fail("C16/original-before-added", format!("an original header sits at position {} before the added header at {}", first_orig, la));
                return false;
            }
        }
    }
    true
}

/// A request in origin-form that carries no header of its own: everything on the wire behind the request
/// line is what the caller added in the prepare state.
fn bare_original_case(idx: u64, rec: &mut Rec) {
    let method = ["GET", "HEAD", "DELETE", "OPTIONS"][(idx % 4) as usize];
    let target = ["/p", "/", "/a/b?c=1"][(idx / 4 % 3) as usize];
    const MENU: [(&str, &[u8]); 6] = [("host", b"h.test"), ("cookie", b"a=b"), ("x-a", b"1"), ("accept", b"*/*"), ("cookie", b"c=d"), ("authorization", b"t")];
    let count = 1 + (idx / 12 % 4) as usize;
    let start = (idx / 48 % 6) as usize;
    let small = idx / 288 % 2 == 1;
    let cfg = ReqCfg::new(method, target);
    let mut flow = match build_flow(&cfg) {
        Ok(f) => f,
        Err(e) => return rec.fail("C16/setup", format!("{:?}", e)),
    };
    let mut added = vec![];
    for k in 0..count {
        let (n, v) = MENU[(start + k) % MENU.len()];
        rec.call();
        if let Err(e) = flow.header(n, ureq_proto::http::HeaderValue::from_bytes(v).unwrap()) {
            return rec.fail("C16/header-refused", format!("header({:?}) -> Err({:?})", n, e));
        }
        added.push((n.to_string(), v.to_vec()));
    }
    let mut s = flow.proceed();
    rec.call();
    let mut r = crate::rng::Rng::new(idx + 7);
    let head = if small { write_head_small(&mut s, &mut r) } else { write_head_big(&mut s) };
    match head {
        Ok(h) => {
            rec.ev(|| format!("{} {} without headers of its own, added {:?} -> {:?}", method, target, fmt_fields(&added), esc(&h)));
            if !s.can_proceed() {
                return rec.fail("C16/head-not-complete", "head written but the flow is not ready".into());
            }
            if check(&h, &added, &initial_eff(&cfg), RedirectAuthHeaders::Never, rec) {
                rec.cov("bare-original/added-headers-on-the-wire");
            }
        }
        Err(e) => rec.fail("C16/request-refused", format!("{} {} with only caller-added headers {:?}: {:?}", method, target, fmt_fields(&added), e)),
    }
}

fn case(rng: &mut Rng, rec: &mut Rec) {
    let depth = rng.usize_in(0, 3);
    let method = if depth == 0 { *rng.pick(&["GET", "POST", "PUT", "HEAD", "DELETE"]) } else { *rng.pick(&["GET", "POST", "HEAD", "DELETE", "PUT"]) };
    let mut cfg = ReqCfg::new(method, &clean_start_uri(rng));
    let orig_has_host = rng.chance(1, 4);
    if orig_has_host {
        // the Host of the first request spelled out: it stays as long as the chain stays on that host, so a
        // Host may only be added where the chain has left it
        cfg.orig.push(("host".into(), host_of(&split_uri(&cfg.uri)).into_bytes()));
        rec.cov("original-with-explicit-host");
    }
    cfg.orig.push(("x-orig".into(), b"o-1".to_vec()));
    if rng.chance(1, 4) {
        cfg.orig.push(("x-null".into(), b"o-null".to_vec()));
    }
    cfg.orig.push(("cookie".into(), b"o-cookie".to_vec()));
    cfg.orig.push(("authorization".into(), b"o-auth".to_vec()));
    if rng.chance(1, 2) {
        cfg.orig.push(("accept".into(), b"o-accept".to_vec()));
    }
    let orig_has_cl = needs_body(method) && rng.chance(1, 2);
    if orig_has_cl {
        cfg.orig.push(("content-length".into(), b"7".to_vec()));
    }
    // a chunked coding on the original request: a caller-added content-length must still be sent
    // (C17 accepts a request carrying both; the coding decides the framing)
    let orig_chunked = needs_body(method) && !orig_has_cl && rng.chance(1, 3);
    if orig_chunked {
        cfg.orig.push(("transfer-encoding".into(), b"chunked".to_vec()));
        rec.cov("original-chunked");
    }
    let policy = if rng.chance(1, 2) { RedirectAuthHeaders::Never } else { RedirectAuthHeaders::SameHost };
    let original = split_uri(&cfg.uri);
    let mut eff = initial_eff(&cfg);
    let mut flow = match build_flow(&cfg) {
        Ok(f) => f,
        Err(e) => return rec.fail("C16/setup", format!("{:?}", e)),
    };
    rec.ev(|| format!("original: {} policy={:?} depth={}", cfg.describe(), policy, depth));
    for hop_i in 0..=depth {
        // a content-length may be added only where a body follows and no other framing header is in effect
        let body_method_now = needs_body(eff.method);
        let inherited_cl = eff.depth == 0 && orig_has_cl;
        // on the last flow a body-less method may get a body through the escape hatch; the caller then
        // frames it with its own content-length (whatever the original request carried is suppressed
        // after a redirect)
        let will_despite = hop_i == depth && !body_method_now && !inherited_cl && !orig_chunked && rng.chance(1, 5);
        let may_frame = (body_method_now && !inherited_cl) || will_despite;
        let inherited_host = orig_has_host && host_of(&eff.uri) == host_of(&original);
        if orig_has_host && !inherited_host {
            rec.cov("explicit-host-left-behind");
        }
        let added = match add_headers(&mut flow, rng, hop_i, inherited_host, may_frame, rec) {
            Some(a) => a,
            None => return,
        };
        if hop_i == depth {
            if will_despite || (!needs_body(eff.method) && !added.iter().any(|(n, _)| n == "content-length") && rng.chance(1, 6)) {
                // the escape hatch is switched on after the headers were added: they must still all be sent
                flow.send_body_despite_method();
                rec.cov("despite-after-headers");
                if added.iter().any(|(n, _)| n == "content-length") {
                    rec.cov(&format!("despite-with-added-content-length/depth{}", eff.depth));
                }
            }
            let mut s = flow.proceed();
            rec.call();
            // half of the heads go out through small, varying buffers
            let small = rng.chance(1, 2);
            // (and one in five through buffers that are exactly as long as the line to come)
            if rng.chance(1, 5) {
                rec.cov("written/line-sized-buffers");
                match write_head_exact(&mut s) {
                    Ok(head) => {
                        check(&head, &added, &eff, policy, rec);
                    }
                    Err(e) => rec.fail("C16/added-header-not-written-through-line-sized-buffers", format!("depth {}: {} (added {:?})", hop_i, e, fmt_fields(&added))),
                }
                return;
            }
            rec.cov(if small { "written/small-buffers" } else { "written/one-buffer" });
            let written = if small { write_head_small(&mut s, rng) } else { write_head_big(&mut s) };
            match written {
                Ok(head) => {
                    rec.ev(|| format!("depth {} head: {:?}", hop_i, crate::json::esc_short(&head, 400)));
                    check(&head, &added, &eff, policy, rec);
                }
                Err(e) => rec.fail("C16/request-refused", format!("depth {}: {:?} (added {:?})", hop_i, e, fmt_fields(&added))),
            }
            return;
        }
        let (_k, loc) = clean_location(rng, &original);
        let hop = Hop { status: *rng.pick(&[301u16, 302, 303, 307, 308]), locations: vec![loc.into_bytes()], with_body: rng.chance(1, 3) };
        // the body of this hop's request must match an added content-length
        let mut hop_cfg = cfg.clone();
        if let Some((_, v)) = added.iter().find(|(n, _)| n == "content-length") {
            hop_cfg.orig.retain(|(n, _)| !n.eq_ignore_ascii_case("content-length"));
            if !orig_chunked {
                hop_cfg.orig.push(("content-length".into(), v.clone()));
            }
        }
        rec.call();
        let (head, followed) = match follow_one_head(flow, &hop_cfg, &eff, &original, &hop, policy) {
            Ok(v) => v,
            Err(e) => return rec.fail("C16/hop-failed", format!("hop {}: {} (added {:?})", hop_i, e, fmt_fields(&added))),
        };
        if !check(&head, &added, &eff, policy, rec) {
            return;
        }
        match followed {
            Followed::Next(f, e) => {
                flow = f;
                eff = e;
            }
            Followed::NotFollowed => {
                rec.cov("not-followed");
                return;
            }
            Followed::Error(e) => return rec.fail("C16/as-new-flow-error", e),
        }
    }
}

impl Property for P {
    fn id(&self) -> &'static str {
        "C16"
    }
    fn rule(&self) -> String {
        "flows at redirect depth 0..3 under both auth policies; at every depth 0..60 tagged headers are added in the prepare state with names drawn from cookie / Cookie / authorization / AUTHORIZATION / connection / host / content-length (where C17 allows them) and ordinary names, some with non-UTF-8 values, while the original request carries its own cookie, authorization and (body methods) content-length. The final request head is written through one buffer or through small varying buffers; each request head is parsed by the strict parser: every added (name, value) must be on the wire, in the order added, and before any original header. class = special name x depth x policy. One head in five is written through buffers grown to exactly the line to come (the first size accepted must be the size written); content-length values may be padded with zeros.".into()
    }
    fn assumptions(&self) -> Vec<String> {
        vec![
            "a caller-added Host is only generated when the original request has none, a caller-added Content-Length only where a body follows and no other framing header is in effect (C17)".into(),
        ]
    }
    fn workloads(&self, tier: Tier) -> Vec<Workload> {
        vec![
            Workload::new("flows", tier.pick(15_000, 4_000_000), false, "random flows at depth 0..3"),
            Workload::new("bare-originals", 576, true, "origin-form requests without any header of their own x 1..4 additions from a menu x big / small buffers"),
        ]
    }
    fn run_case(&self, wl: &str, idx: u64, seed: u64, rec: &mut Rec) {
        if wl == "bare-originals" {
            return bare_original_case(idx, rec);
        }
        let mut rng = Rng::derive(seed, wl, idx);
        case(&mut rng, rec)
    }
    fn floors(&self, _tier: Tier) -> Vec<(String, u64)> {
        let mut v = vec![];
        v.push(("bare-original/added-headers-on-the-wire".into(), 500));
        v.push(("added/transfer-encoding-gzip".into(), 200));
        for d in 0..=3 {
            for p in ["never", "same-host"] {
                v.push((format!("cookie/depth{}/{}", d, p), 20));
                v.push((format!("authorization/depth{}/{}", d, p), 20));
                v.push((format!("other/depth{}/{}", d, p), 20));
            }
            v.push((format!("host/depth{}/*", d), 5));
            v.push((format!("connection/depth{}/*", d), 5));
        }
        v.push(("content-length/depth0/*".into(), 5));
        v.push(("written/small-buffers".into(), 100));
        v.push(("written/line-sized-buffers".into(), 100));
        v.push(("expect/*".into(), 50));
        v.push(("original-chunked".into(), 100));
        v.push(("despite-after-headers".into(), 50));
        v.push(("despite-with-added-content-length/depth1".into(), 3));
        v.push(("despite-with-added-content-length/depth2".into(), 3));
        v
    }
}
