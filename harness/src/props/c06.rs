//! C06 — response body framing follows the HTTP/1.1 message-body-length rules.
use crate::core::{Property, Rec, Tier, Workload};
use crate::drive::*;
use crate::json::esc;
use crate::wire::*;
use ureq_proto::client::call::Call;
use ureq_proto::client::flow::RecvResponseResult;

pub struct P;

const CLS: [Option<&[u8]>; 12] = [
    Some(b"007"),
    None,
    Some(b"0"),
    Some(b"7"),
    Some(b"1099511627776"),
    Some(b"18446744073709551615"),
    Some(b"abc"),
    Some(b"-1"),
    Some(b"1.5"),
    Some(b""),
    Some(b"\xff"),
    Some(b"+1"),
];
const TES: [Option<&[u8]>; 21] = [
    // one coding list on several field lines (RFC 9110 5.3: the same as one comma-separated line)
    Some(b"gzip\nchunked"),
    Some(b"chunked\ngzip"),
    Some(b"gzip\ndeflate, Chunked"),
    Some(b"chunked,"),
    Some(b"gzip, chunked, "),
    Some(b""),
    Some(b"chunk"),
    Some(b"chunked-v2"),
    Some(b"gzip,"),
    Some(b"xchunked"),
    Some(b"gzip,chunked"),
    Some(b"deflate ,\t chunked"),
    Some(b"chunked,chunked"),
    None,
    Some(b"chunked"),
    Some(b"Chunked"),
    Some(b"CHUNKED"),
    Some(b"gzip, chunked"),
    Some(b"gzip"),
    Some(b"identity"),
    Some(b"chunked, gzip"),
];

fn head(status: u16, http10: bool, cl: Option<&[u8]>, te: Option<&[u8]>, te_first: bool) -> RespHead {
    let mut h = RespHead::new(http10, status);
    h.fields.push(Field::new("Server", b"t"));
    let clf = cl.map(|v| Field::new("Content-Length", v));
    // a '\n' in the shape stands for a coding list spread over several field lines
    let tef: Vec<Field> = te.map(|v| v.split(|b| *b == b'\n').map(|part| Field::new("Transfer-Encoding", part)).collect()).unwrap_or_default();
    if te_first {
        h.fields.extend(tef);
        h.fields.extend(clf);
    } else {
        h.fields.extend(clf);
        h.fields.extend(tef);
    }
    h
}

const NEXT: &[u8] = b"HTTP/1.1 200 OK\r\nContent-Length: 0\r\n\r\n";

fn body_for(f: Framing) -> Vec<u8> {
    match f {
        Framing::Length(7) => b"abcdefg".to_vec(),
        Framing::Chunked => b"3\r\nabc\r\n4;x\r\ndefg\r\n0\r\n\r\n".to_vec(),
        Framing::Close => b"abcdefg".to_vec(),
        _ => vec![],
    }
}

fn cell(idx: u64, rec: &mut Rec) {
    let mut x = idx as usize;
    let mut take = |n: usize| {
        let v = x % n;
        x /= n;
        v
    };
    let method = METHODS[take(9)];
    let status = 101 + take(899) as u16;
    let http10 = take(2) == 1;
    let cl = CLS[take(CLS.len())];
    let te = TES[take(TES.len())];
    let te_first = (idx / 7) % 2 == 0;
    let exp = body_rule(method, status, http10, classify_cl(cl), classify_te(te));
    let h = head(status, http10, cl, te, te_first);
    let head_bytes = h.render();
    let mut stream = head_bytes.clone();
    let fr = match &exp {
        FrameExp::Is(f, _) => Some(*f),
        _ => None,
    };
    let body = fr.map(body_for).unwrap_or_default();
    stream.extend_from_slice(&body);
    if fr != Some(Framing::Close) {
        stream.extend_from_slice(NEXT);
    }
    // body-carrying methods: every third cell reaches the receive state because the server answered
    // an Expect: 100-continue request with this very response (the body is then never sent)
    let refused_route = needs_body(method) && idx % 3 == 0;
    let made = if refused_route {
        super::c05::recv_flow_via(super::c05::Route::ExpectRefused, &head_bytes).ok_or_else(|| "the response was not recognised as a refusal while awaiting 100".to_string())
    } else {
        fast_to_recv(&ReqCfg::new(method, "http://h.test/r"))
    };
    let mut f = match made {
        Ok(f) => f,
        Err(e) => return rec.fail("C06/setup", format!("{}: {}", method, e)),
    };
    if refused_route {
        rec.cov("route/expect-refused");
    }
    if idx % 11 == 5 && !refused_route {
        // an interim 102 / 103 is handed out first (this state treats it like any head without a body); the
        // caller that wants the real response offers what follows to the same flow, and THAT head decides
        let interim: &[u8] = if idx % 2 == 0 { b"HTTP/1.1 103 Early Hints\r\nLink: </s.css>; rel=preload\r\n\r\n" } else { b"HTTP/1.1 102 Processing\r\n\r\n" };
        let mut both = interim.to_vec();
        both.extend_from_slice(&stream);
        rec.call();
        match f.try_response(&both) {
            Ok((n, Some(r1))) if n == interim.len() && (r1.status().as_u16() == 102 || r1.status().as_u16() == 103) => rec.cov("interim-1xx-handed-out-first"),
            other => return rec.fail("C06/interim-not-handed-out", format!("{} in front of the head: {:?}", String::from_utf8_lossy(&interim[..24]), other.map(|(n, r)| (n, r.map(|r| r.status().as_u16()))))),
        }
    }
    rec.call();
    let r = f.try_response(&stream);
    rec.ev(|| {
        format!(
            "{} <- {:?} => model {:?}; try_response -> {}",
            method,
            esc(&head_bytes),
            exp,
            match &r {
                Ok((n, Some(_))) => format!("Ok(({}, Some))", n),
                Ok((n, None)) => format!("Ok(({}, None))", n),
                Err(e) => format!("Err({:?})", e),
            }
        )
    });
    if idx % 13 == 7 && matches!(r, Ok((_, Some(_)))) {
        // the caller looks again before advancing and finds nothing (no input, the start of what follows):
        // what the head decided stands
        rec.call();
        let again1 = f.try_response(b"").map(|(n, r)| (n, r.is_some()));
        let again2 = f.try_response(b"HTTP/1.").map(|(n, r)| (n, r.is_some()));
        if again1 != Ok((0, false)) || again2 != Ok((0, false)) {
            return rec.fail("C06/look-after-the-head", format!("looks after the deciding head: {:?}, {:?}", again1, again2));
        }
        rec.cov("looked-again-after-the-head");
    }
    let desc = || format!("{} status {} {} CL={:?} TE={:?}", method, status, if http10 { "HTTP/1.0" } else { "HTTP/1.1" }, cl.map(esc), te.map(esc));
    match &exp {
        FrameExp::Error(why) => {
            rec.cov(&format!("error/{}", why));
            if r.is_ok() {
                return rec.fail(&format!("C06/accepted/{}", why), format!("{}: an error is expected, got a response", desc()));
            }
            return;
        }
        FrameExp::DontCare(why) => {
            rec.cov(&format!("dont-care/{}", why));
            // no panic is all that is asked here; advancing must not panic either
            if let Ok((_, Some(_))) = r {
                rec.call();
                let _ = f.proceed();
            }
            return;
        }
        FrameExp::Is(..) => {}
    }
    let (framing, rule) = match &exp {
        FrameExp::Is(f, r) => (*f, *r),
        _ => unreachable!(),
    };
    let n = match r {
        Ok((n, Some(_))) => n,
        Ok((_, None)) => return rec.fail("C06/no-response", format!("{}: complete head not recognised", desc())),
        Err(e) => return rec.fail(&format!("C06/rejected/{}", rule), format!("{}: Err({:?}), expected framing {:?}", desc(), e, framing)),
    };
    if n != head_bytes.len() {
        return rec.fail("C06/head-consumed", format!("{}: consumed {} of a {} byte head", desc(), n, head_bytes.len()));
    }
    let want_next = successor(framing, status);
    rec.call();
    let got = f.proceed();
    let got_name = match &got {
        Some(RecvResponseResult::RecvBody(_)) => "RecvBody",
        Some(RecvResponseResult::Redirect(_)) => "Redirect",
        Some(RecvResponseResult::Cleanup(_)) => "Cleanup",
        None => "None",
    };
    rec.cov(&format!("rule={}/next={}", rule, want_next));
    if got_name != want_next {
        return rec.fail(
            &format!("C06/successor/{}", rule),
            format!("{}: rule {} gives framing {:?} hence {}, flow went to {}", desc(), rule, framing, want_next, got_name),
        );
    }
    if let Some(RecvResponseResult::RecvBody(mut b)) = got {
        rec.call();
        let mode = mode_of(b.body_mode());
        let want_mode = match framing {
            Framing::Chunked => Mode::Chunked,
            Framing::Length(n) => Mode::Length(n),
            Framing::Close => Mode::Close,
            Framing::NoBody => Mode::NoBody,
        };
        if mode != want_mode {
            return rec.fail(
                &format!("C06/mode/{}", rule),
                format!("{}: rule {} gives {:?}, body_mode() = {:?}", desc(), rule, want_mode, mode),
            );
        }
        // deliver the body in that framing; the next response must stay unconsumed
        if !body.is_empty() {
            let mut out = vec![0u8; 64];
            let mut consumed = 0;
            let mut data = Vec::new();
            for _ in 0..8 {
                rec.call();
                match b.read(&stream[n + consumed..], &mut out) {
                    Ok((c, p)) => {
                        consumed += c;
                        data.extend_from_slice(&out[..p]);
                        if c == 0 && p == 0 {
                            break;
                        }
                    }
                    Err(e) => return rec.fail("C06/body-read", format!("{}: read -> Err({:?})", desc(), e)),
                }
            }
            if data != b"abcdefg" || consumed != body.len() {
                return rec.fail(
                    &format!("C06/body-delivery/{}", rule),
                    format!("{}: delivered {:?}, consumed {} of a {} byte body coding", desc(), esc(&data), consumed, body.len()),
                );
            }
            if !b.can_proceed() {
                return rec.fail("C06/body-not-complete", format!("{}: body fully delivered but not complete", desc()));
            }
        }
    }
}

/// Same cell through the single-call API, which distinguishes "no body" from "zero length".
fn cell_call(idx: u64, rec: &mut Rec) {
    let mut x = idx as usize;
    let mut take = |n: usize| {
        let v = x % n;
        x /= n;
        v
    };
    let method = METHODS[take(9)];
    let status = [101u16, 199, 200, 204, 205, 299, 300, 301, 304, 307, 399, 404, 500, 999][take(14)];
    let http10 = take(2) == 1;
    let cl = CLS[take(CLS.len())];
    let te = TES[take(TES.len())];
    let exp = body_rule(method, status, http10, classify_cl(cl), classify_te(te));
    let h = head(status, http10, cl, te, false);
    let head_bytes = h.render();
    let req = build_request(&ReqCfg::new(method, "http://h.test/r"));
    let mut buf = vec![0u8; 1024];
    let recv = if needs_body(method) {
        let mut c = Call::with_body(req).unwrap();
        c.write(&[], &mut buf).unwrap();
        c.write(&[], &mut buf).unwrap();
        c.into_receive()
    } else {
        let mut c = Call::without_body(req).unwrap();
        c.write(&mut buf).unwrap();
        c.into_receive()
    };
    let mut recv = match recv {
        Ok(r) => r,
        Err(e) => return rec.fail("C06/setup-call", format!("{:?}", e)),
    };
    rec.call();
    let r = recv.try_response(&head_bytes);
    let desc = || format!("Call API {} status {} {} CL={:?} TE={:?}", method, status, if http10 { "HTTP/1.0" } else { "HTTP/1.1" }, cl.map(esc), te.map(esc));
    match exp {
        FrameExp::Error(why) => {
            rec.cov(&format!("call/error/{}", why));
            if r.is_ok() {
                rec.fail(&format!("C06/accepted/{}", why), format!("{}: an error is expected", desc()));
            }
        }
        FrameExp::DontCare(_) => {}
        FrameExp::Is(fr, rule) => {
            match r {
                Ok(Some((n, _))) if n == head_bytes.len() => {}
                other => return rec.fail(&format!("C06/rejected/{}", rule), format!("{}: try_response -> {:?}", desc(), other.map(|o| o.map(|v| v.0)))),
            }
            rec.call();
            let b = match recv.into_body() {
                Ok(b) => b,
                Err(e) => return rec.fail("C06/into-body", format!("{}: {:?}", desc(), e)),
            };
            rec.cov(&format!("call/rule={}", rule));
            match (fr, b) {
                (Framing::NoBody, None) => {}
                (Framing::NoBody, Some(_)) => rec.fail(&format!("C06/call-body-for-bodyless/{}", rule), format!("{}: into_body() gave a body reader, rule {} says no body", desc(), rule)),
                // a body of length zero is not a body to read: the single-call API, like the flow, skips the body state
                (Framing::Length(0), None) => rec.cov("call/zero-length-skips-body-state"),
                (Framing::Length(0), Some(_)) => rec.fail(&format!("C06/call-body-state-for-empty-body/{}", rule), format!("{}: into_body() gave a body state although the body has length zero (rule {})", desc(), rule)),
                (_, None) => rec.fail(&format!("C06/call-no-body/{}", rule), format!("{}: into_body() = None, rule {} says {:?}", desc(), rule, fr)),
                (Framing::Close, Some(b)) => {
                    if !b.is_close_delimited() {
                        rec.fail("C06/call-mode", format!("{}: expected close-delimited", desc()));
                    }
                }
                (_, Some(b)) => {
                    if b.is_ended() || b.is_close_delimited() {
                        rec.fail("C06/call-mode", format!("{}: expected an unfinished {:?} body", desc(), fr));
                    }
                }
            }
        }
    }
}

/// Opt-in truncated redirects: the framing decision must follow the same rules on the fields that
/// were accepted (in particular the response version must be the one on the wire).
fn partial_cell(idx: u64, rec: &mut Rec) {
    let mut x = idx as usize;
    let mut take = |n: usize| {
        let v = x % n;
        x /= n;
        v
    };
    let method = ["GET", "POST", "HEAD", "DELETE"][take(4)];
    let status = [301u16, 302, 307, 308][take(4)];
    let http10 = take(2) == 1;
    let cl: Option<&[u8]> = [None, Some(&b"7"[..]), Some(&b"0"[..])][take(3)];
    let te: Option<&[u8]> = [None, Some(&b"chunked"[..]), Some(&b"gzip, chunked"[..])][take(3)];
    let exp = body_rule(method, status, http10, classify_cl(cl), classify_te(te));
    let mut h = RespHead::new(http10, status);
    if let Some(v) = cl {
        h.fields.push(Field::new("Content-Length", v));
    }
    if let Some(v) = te {
        h.fields.push(Field::new("Transfer-Encoding", v));
    }
    h.fields.push(Field::new("Location", b"/next"));
    let full = h.render();
    let truncated = &full[..full.len() - 2];
    let mut f = match fast_to_recv(&ReqCfg::new(method, "http://h.test/r")) {
        Ok(f) => f,
        Err(e) => return rec.fail("C06/setup", e),
    };
    f.allow_partial_redirect(true);
    rec.call();
    let r = f.try_response(truncated);
    rec.ev(|| format!("{} allow_partial_redirect(true) <- {:?} => model {:?}; -> {:?}", method, esc(truncated), exp, r.as_ref().map(|(n, r)| (*n, r.is_some()))));
    let (framing, rule) = match (&exp, &r) {
        (FrameExp::Is(f, r2), Ok((_, Some(_)))) => (*f, *r2),
        _ => {
            rec.cov("partial-redirect/not-judged");
            return;
        }
    };
    rec.cov(&format!("partial-redirect/rule={}", rule));
    let want_next = successor(framing, status);
    rec.call();
    let got = f.proceed();
    let (got_name, mode) = match &got {
        Some(RecvResponseResult::RecvBody(b)) => ("RecvBody", Some(mode_of(b.body_mode()))),
        Some(RecvResponseResult::Redirect(_)) => ("Redirect", None),
        Some(RecvResponseResult::Cleanup(_)) => ("Cleanup", None),
        None => ("None", None),
    };
    if got_name != want_next {
        return rec.fail(
            &format!("C06/successor/{}", rule),
            format!("truncated {} {} {} CL={:?} TE={:?} accepted by opt-in: rule {} gives {:?} hence {}, flow went to {}", method, status, if http10 { "HTTP/1.0" } else { "HTTP/1.1" }, cl.map(esc), te.map(esc), rule, framing, want_next, got_name),
        );
    }
    if let Some(m) = mode {
        let want_mode = match framing {
            Framing::Chunked => Mode::Chunked,
            Framing::Length(n) => Mode::Length(n),
            Framing::Close => Mode::Close,
            Framing::NoBody => Mode::NoBody,
        };
        if m != want_mode {
            rec.fail(&format!("C06/mode/{}", rule), format!("truncated {} {} {}: rule {} gives {:?}, body_mode() = {:?}", method, status, if http10 { "HTTP/1.0" } else { "HTTP/1.1" }, rule, want_mode, m));
        }
    }
}

impl Property for P {
    fn id(&self) -> &'static str {
        "C06"
    }
    fn rule(&self) -> String {
        "exhaustive decision table through the Flow API: 9 methods x status 101..=999 x response version 1.0/1.1 x 12 Content-Length shapes x 21 Transfer-Encoding shapes (incl. empty list elements, which count for nothing, and lists spread over two field lines) (+ header order alternated); each cell feeds a real head + a body in the expected framing + a following response and compares try_response / proceed() variant / body_mode() / delivered body with an independent restatement of RFC 9112 section 6.3 (wire::body_rule). A second table through the Call API (14 statuses) separates 'no body' from 'zero length'. class = rule fired x successor state.".into()
    }
    fn assumptions(&self) -> Vec<String> {
        vec![
            "a non-numeric Content-Length is an error in every cell, as the statement says without exception (also on bodyless responses and next to a chunked coding)".into(),
            "don't-care cells (only no-panic checked): coding lists where chunked is not last; '+1'; HTTP/1.0 3xx whose only framing header is Transfer-Encoding: chunked; 3xx with only a non-chunked Transfer-Encoding".into(),
            "status 100 belongs to C05/C11".into(),
        ]
    }
    fn workloads(&self, _tier: Tier) -> Vec<Workload> {
        vec![
            Workload::new("flow-table", 9 * 899 * 2 * 12 * 21, true, "full product through Flow"),
            Workload::new("call-table", 9 * 14 * 2 * 12 * 21, true, "14 statuses through Call::into_body"),
            Workload::new("partial-redirect-framing", 4 * 4 * 2 * 3 * 3, true, "allow_partial_redirect(true): truncated 3xx heads, framing judged on the accepted fields"),
        ]
    }
    fn run_case(&self, wl: &str, idx: u64, _seed: u64, rec: &mut Rec) {
        if wl == "flow-table" {
            cell(idx, rec)
        } else if wl == "partial-redirect-framing" {
            partial_cell(idx, rec)
        } else {
            cell_call(idx, rec)
        }
    }
    fn floors(&self, _tier: Tier) -> Vec<(String, u64)> {
        [
            "rule=HEAD/*", "rule=CONNECT-2xx/*", "rule=1xx/*", "rule=204/*", "rule=304/*", "rule=chunked/next=RecvBody", "rule=chunked-over-length/next=RecvBody",
            "rule=length/next=RecvBody", "rule=length/next=Redirect", "rule=length/next=Cleanup", "rule=length-http10-ignores-chunked/*", "rule=close/next=RecvBody",
            "rule=close-http10-ignores-chunked/*", "rule=redirect-without-framing/next=Redirect", "error/non-numeric-content-length", "error/non-numeric-content-length-on-bodyless", "error/non-numeric-content-length-with-chunked", "call/rule=length", "call/rule=HEAD", "partial-redirect/rule=*", "route/expect-refused",
        ]
        .iter()
        .map(|k| (k.to_string(), 50))
        .collect()
    }
}
