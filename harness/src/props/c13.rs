//! C13 — redirects never leak credentials or stale framing to the next request.
use super::heads::*;
use crate::core::{Property, Rec, Tier, Workload};
use crate::drive::*;
use crate::json::esc;
use crate::rng::Rng;
use crate::wire::*;
use ureq_proto::client::flow::RedirectAuthHeaders;

pub struct P;

/// Originals whose request target is not an absolute URI (authority-form, origin-form with the Host spelled out):
/// there is no original scheme for the target's to equal, so the original Authorization may only travel to an
/// https target on the original host, and only under the same-host policy; the Cookie never travels.
fn non_absolute_original_case(idx: u64, rec: &mut Rec) {
    use crate::core::{guarded, panic_sig};
    let (method, target, orig_host): (&'static str, &str, Option<&str>) = [("GET", "a.test:8080", Some("a.test")), ("CONNECT", "a.test:443", Some("a.test")), ("GET", "/p?q=1", None), ("OPTIONS", "*", None)][(idx % 4) as usize];
    let loc: &[u8] = [&b"http://a.test/x"[..], b"https://a.test/x", b"http://a.test:8080/x", b"https://b.test/", b"http://b.test/y", b"https://a.test:8443/z"][(idx / 4 % 6) as usize];
    let policy = if idx / 24 % 2 == 0 { RedirectAuthHeaders::Never } else { RedirectAuthHeaders::SameHost };
    let status = [301u16, 302, 307, 308][(idx / 48 % 4) as usize];
    let cfg = ReqCfg::new(method, target).h("host", b"a.test").h("authorization", b"t0-secret").h("cookie", b"t0-c=1");
    let mut head = format!("HTTP/1.1 {} R\r\nLocation: ", status).into_bytes();
    head.extend_from_slice(loc);
    head.extend_from_slice(b"\r\nContent-Length: 0\r\n\r\n");
    let res = guarded(|| -> Result<Option<Vec<u8>>, String> {
        let f = fast_to_recv(&cfg)?;
        let (end, ..) = fast_response(f, &head)?;
        match end {
            End::Redirect(mut r) => match r.as_new_flow(policy) {
                Ok(Some(nf)) => {
                    let mut s = nf.proceed();
                    write_head_big(&mut s).map(Some).map_err(|e| format!("redirected head: {:?}", e))
                }
                Ok(None) => Ok(None),
                Err(_) => Ok(None),
            },
            End::Cleanup(_) => Err("no redirect state".into()),
        }
    });
    rec.call();
    rec.ev(|| format!("{} {} (Host a.test) answered {} Location {:?}, policy {:?} -> {:?}", method, target, status, esc(loc), policy, res.as_ref().map(|r| r.as_ref().map(|o| o.as_ref().map(|h| String::from_utf8_lossy(h).to_string())))));
    match res {
        Err((l, m)) => rec.fail(&format!("C13/{}", panic_sig(&l, &m)), format!("{} {}: panic {} at {}", method, target, m, l)),
        Ok(Err(e)) => rec.fail("C13/setup", format!("{} {}: {}", method, target, e)),
        Ok(Ok(None)) => rec.cov("non-absolute-original/not-followed"),
        Ok(Ok(Some(h))) => {
            rec.cov("non-absolute-original/followed");
            let h = match parse_request_head_strict(&h) {
                Ok(h) => h,
                Err(e) => return rec.fail("C13/head-unparseable", e),
            };
            let t = split_uri(&String::from_utf8_lossy(loc));
            let same_host = orig_host.map(|o| host_of(&t) == o).unwrap_or(false);
            let https = scheme_of(&t) == "https";
            for (n, v) in &h.headers {
                let name = n.to_ascii_lowercase();
                if name == "cookie" && v.starts_with(b"t0-") {
                    return rec.fail("C13/cookie-leaked", format!("{} {} -> {:?}: the original cookie travels", method, target, esc(loc)));
                }
                if name == "authorization" && v.starts_with(b"t0-") {
                    rec.cov("non-absolute-original/authorization-kept");
                    if policy == RedirectAuthHeaders::Never || !same_host || !https {
                        return rec.fail(
                            &format!("C13/authorization-leaked/non-absolute-original/{}", if policy == RedirectAuthHeaders::Never { "never" } else if !same_host { "other-host" } else { "not-https" }),
                            format!("{} {} (no scheme of its own) redirected to {:?} with policy {:?}: the original Authorization travels", method, target, esc(loc), policy),
                        );
                    }
                }
            }
        }
    }
}

fn chain_case(rng: &mut Rng, rec: &mut Rec) {
    let method = *rng.pick(&["GET", "GET", "HEAD", "POST", "PUT", "DELETE", "OPTIONS", "PATCH", "TRACE"]);
    let mut cfg = ReqCfg::new(method, &clean_start_uri(rng));
    if http10_method(method) && rng.chance(1, 5) {
        cfg.ver = Ver::V10;
    }
    if rng.chance(1, 3) {
        // the caller spelled out the Host of the first request (one more header a redirect has to deal with);
        // now and then it names another host than the URI does (a virtual host behind an address): where
        // the request WENT is what "the original request's host" means for the credentials
        let h = if rng.chance(1, 4) {
            rec.cov("original/host-header-names-another-host");
            (*rng.pick(&CLEAN_HOSTS)).to_string()
        } else {
            host_of(&split_uri(&cfg.uri))
        };
        cfg.orig.push(("host".into(), h.into_bytes()));
        rec.cov("original/explicit-host");
    }
    if rng.chance(1, 16) {
        // a request that carries a lot of other fields in front of its credentials
        for k in 0..70 {
            cfg.orig.push((format!("x-filler-{:02}", k), b"t0-filler".to_vec()));
        }
        rec.cov("original/seventy-fields-before-the-credentials");
    }
    cfg.orig.push(("x-keep".into(), b"t0-keep".to_vec()));
    cfg.orig.push(("authorization".into(), b"t0-Bearer-secret".to_vec()));
    cfg.orig.push(("cookie".into(), b"t0-session=original".to_vec()));
    for k in 0..rng.usize_in(0, 3) {
        cfg.orig.push(((*rng.pick(&["Cookie", "cookie"])).to_string(), format!("t0-more{}=cookie", k).into_bytes()));
    }
    if rng.chance(1, 3) {
        // a second credential line after the cookies
        cfg.orig.push(("Authorization".into(), b"t0-Basic-second".to_vec()));
    }
    if needs_body(method) && rng.chance(2, 3) {
        cfg.orig.push(("content-length".into(), b"1234".to_vec()));
    } else if needs_body(method) && rng.chance(1, 2) {
        // the other way to frame the original body; it is not the redirected request's framing either
        cfg.orig.push(("transfer-encoding".into(), b"chunked".to_vec()));
        rec.cov("original/chunked");
    }
    if !needs_body(method) && rng.chance(1, 4) {
        // a body forced onto a body-less method: its Content-Length is just as stale after a redirect,
        // and this method survives every redirect status
        cfg.despite = true;
        cfg.orig.push(("content-length".into(), b"1234".to_vec()));
        rec.cov("original/despite-method-with-content-length");
    }
    let policy = if rng.chance(1, 2) { RedirectAuthHeaders::Never } else { RedirectAuthHeaders::SameHost };
    // one chain in three: the caller decides afresh at every redirect (the policy is an argument of each follow)
    let vary_policy = rng.chance(1, 3);
    let mut created_with = policy;
    let original = split_uri(&cfg.uri);
    let hops = rng.usize_in(1, 4);
    rec.ev(|| format!("original: {} policy={:?}", cfg.describe(), policy));
    let mut eff = initial_eff(&cfg);
    let mut flow = match build_flow(&cfg) {
        Ok(f) => f,
        Err(e) => return rec.fail("C13/setup", format!("{:?}", e)),
    };
    let mut added_for_previous: Option<String> = None;
    for hop_i in 0..hops {
        let (kind, loc) = clean_location(rng, &original);
        rec.cov(&format!("location-kind/{}", kind));
        let hop = Hop { status: { let mut st = rng.usize_in(300, 399) as u16; if st == 304 { st = 303; } st }, locations: vec![loc.clone().into_bytes()], with_body: rng.chance(1, 3) };
        // the caller attaches its own cookie for this hop (must not be confused with the inherited one)
        let mut added_now = None;
        if rng.chance(1, 2) {
            // (on the first request too: a cookie or a token added there through header() is the first
            // request's, the redirect must not carry it along either)
            let v = format!("t{}-jar=fresh", hop_i);
            let name = if hop_i == 0 && rng.chance(1, 2) { "authorization" } else { "cookie" };
            let _ = flow.header(name, v.clone());
            added_now = Some(v);
        }
        if hop_i > 0 && !needs_body(eff.method) && rng.chance(1, 5) {
            // a body forced onto the redirected request: whatever framing it gets is its own
            flow.send_body_despite_method();
            rec.cov("redirected/despite-method");
        }
        rec.call();
        let policy_now = if vary_policy {
            rec.cov("policy/chosen-per-hop");
            if rng.chance(1, 2) { RedirectAuthHeaders::Never } else { RedirectAuthHeaders::SameHost }
        } else {
            policy
        };
        let (head, followed) = match follow_one_head(flow, &cfg, &eff, &original, &hop, policy_now) {
            Ok(v) => v,
            Err(e) => {
                let sig = if hop_i > 0 && e.contains("MethodForbidsBody") { "C13/content-length-leaked" } else { "C13/hop-failed" };
                return rec.fail(sig, format!("hop {} ({} {:?}): {}", hop_i, hop.status, loc, e));
            }
        };
        // the head of the request that was just sent (hop_i >= 1 means it was created by a redirect)
        // (judged by the policy given to the follow that created this request)
        if hop_i > 0 && !check_head(&head, &cfg, &eff, created_with, &original, hop_i, rec) {
            return;
        }
        created_with = policy_now;
        if let Some(prev) = &added_for_previous {
            if head.windows(prev.len()).any(|w| w == prev.as_bytes()) {
                return rec.fail("C13/previous-requests-added-credential-carried-over", format!("request #{} carries {:?}, which the caller added to the request before it", hop_i, prev));
            }
            rec.cov("previous-added-credential/not-carried-over");
        }
        added_for_previous = added_now;
        match followed {
            Followed::Next(f, e) => {
                rec.ev(|| format!("hop {}: {} Location {:?} ({}) -> {} {}", hop_i, hop.status, loc, kind, e.method, normalise(&e.uri)));
                flow = f;
                eff = e;
            }
            Followed::NotFollowed => {
                rec.cov("not-followed");
                return;
            }
            Followed::Error(e) => return rec.fail("C13/as-new-flow-error", format!("hop {} Location {:?}: {}", hop_i, loc, e)),
        }
    }
    // the last created flow: write its head too
    if !needs_body(eff.method) && rng.chance(1, 3) {
        flow.send_body_despite_method();
        rec.cov("redirected/despite-method");
    }
    let mut f = flow.proceed();
    rec.call();
    // (half of the last heads go out through small buffers: what is suppressed stays suppressed when the
    // head is written in pieces)
    let small = rng.chance(1, 2);
    if small {
        rec.cov("redirected/head-through-small-buffers");
    }
    let written = if small { write_head_small(&mut f, rng) } else { write_head_big(&mut f) };
    match written {
        Ok(head) => {
            check_head(&head, &cfg, &eff, created_with, &original, hops, rec);
        }
        Err(e) => rec.fail("C13/redirected-request-refused", format!("{:?}", e)),
    }
}

fn check_head(head: &[u8], cfg: &ReqCfg, eff: &Eff, policy: RedirectAuthHeaders, original: &UriRef, hop_i: usize, rec: &mut Rec) -> bool {
    let h = match parse_request_head_strict(head) {
        Ok(h) => h,
        Err(e) => {
            rec.fail("C13/head-unparseable", e);
            return false;
        }
    };
    let host_rel = if host_of(&eff.uri) == host_of(original) { "same-host" } else { "other-host" };
    let sch_rel = if scheme_of(&eff.uri) == scheme_of(original) {
        "same-scheme"
    } else if scheme_of(&eff.uri) == "https" {
        "upgrade"
    } else {
        "downgrade"
    };
    let pol = if policy == RedirectAuthHeaders::Never { "never" } else { "same-host-policy" };
    rec.cov(&format!("hop{}/{}/{}/{}", hop_i.min(4), host_rel, sch_rel, pol));
    let allowed = may_keep_auth(policy, original, &eff.uri);
    for (n, v) in &h.headers {
        let name = n.to_ascii_lowercase();
        let from_original = v.starts_with(b"t0-") || (name == "content-length" && cfg.get("content-length") == Some(v.as_slice()));
        if name == "cookie" && from_original {
            rec.fail("C13/cookie-leaked", format!("request #{} to {} carries the original request's cookie {:?}", hop_i, normalise(&eff.uri), esc(v)));
            return false;
        }
        if name == "content-length" && from_original {
            rec.fail("C13/content-length-leaked", format!("request #{} ({}) carries the previous request's content-length {:?}", hop_i, h.method, esc(v)));
            return false;
        }
        if name == "authorization" && from_original {
            if !allowed {
                rec.fail(
                    &format!("C13/authorization-leaked/{}/{}/{}", pol, host_rel, sch_rel),
                    format!(
                        "request #{} to {} carries the original Authorization although policy={:?}, original={}, target host {} scheme {}",
                        hop_i,
                        normalise(&eff.uri),
                        policy,
                        normalise(original),
                        host_rel,
                        sch_rel
                    ),
                );
                return false;
            }
            rec.stat("authorization-forwarded-where-allowed", 1);
        }
    }
    if allowed && !h.headers.iter().any(|(n, _)| n.eq_ignore_ascii_case("authorization")) {
        rec.stat("authorization-dropped-although-allowed", 1);
    }
    if !h.headers.iter().any(|(n, v)| n == "x-keep" && v == b"t0-keep") {
        rec.fail("C13/unrelated-header-lost", "the harmless original header x-keep did not reach the redirected request".into());
        return false;
    }
    true
}

impl Property for P {
    fn id(&self) -> &'static str {
        "C13"
    }
    fn rule(&self) -> String {
        "redirect chains of 1..4 hops: original request (9 methods, 1.0/1.1) carries tagged Authorization, one or two Cookie fields and (body methods) Content-Length; Locations are drawn from absolute (original host same/other scheme, other hosts, ports incl. explicit default), scheme-relative, path-absolute, relative with ./ ../, query-only, empty, with fragment; all redirect statuses; both policies; the caller also attaches fresh cookies on later hops. Every request created by a redirect is serialised and parsed by the strict parser: a Cookie or Content-Length value tagged as the original's must never appear; the original Authorization may appear only if policy = SameHost and target host == original host and (target scheme == original scheme or https), the target being computed by an independent RFC 3986 resolver. A third of the originals spell out their Host; redirected flows get send_body_despite_method() now and then (whatever framing they then carry must be their own). class = hop index x host relation x scheme relation x policy. How often the credential was forwarded where allowed is reported as a statistic, not judged. A third of the chains choose the policy afresh at every hop (each head judged by the policy that created it); one original in sixteen carries seventy other fields in front of its credentials; non-absolute-originals: authority-form, origin-form and asterisk originals (no scheme of their own).".into()
    }
    fn assumptions(&self) -> Vec<String> {
        vec![
            "hosts are lower-case registered names; host comparison ignores the port".into(),
            "only the direction 'present only if' is a violation".into(),
        ]
    }
    fn workloads(&self, tier: Tier) -> Vec<Workload> {
        vec![
            Workload::new("chains", tier.pick(20_000, 8_000_000), false, "random redirect chains"),
            Workload::new("non-absolute-originals", 4 * 6 * 2 * 4, true, "authority-form / origin-form / asterisk originals with Host, Authorization and Cookie x 6 absolute Locations x 2 policies x 4 statuses"),
        ]
    }
    fn run_case(&self, wl: &str, idx: u64, seed: u64, rec: &mut Rec) {
        if wl == "non-absolute-originals" {
            return non_absolute_original_case(idx, rec);
        }
        let mut rng = Rng::derive(seed, wl, idx);
        chain_case(&mut rng, rec)
    }
    fn floors(&self, _tier: Tier) -> Vec<(String, u64)> {
        let mut v = vec![];
        for hop in 1..=4 {
            v.push((format!("hop{}/same-host/same-scheme/same-host-policy", hop), 5));
            v.push((format!("hop{}/same-host/downgrade/same-host-policy", hop), 3));
            v.push((format!("hop{}/other-host/*", hop), 5));
        }
        v.push(("hop2/same-host/upgrade/same-host-policy".into(), 3));
        v.push(("non-absolute-original/followed".into(), 50));
        v.push(("policy/chosen-per-hop".into(), 1000));
        v.push(("original/seventy-fields-before-the-credentials".into(), 200));
        v.push(("hop1/same-host/same-scheme/never".into(), 20));
        v.push(("location-kind/abs-host-in-prefix-relation".into(), 100));
        v.push(("original/despite-method-with-content-length".into(), 100));
        v.push(("redirected/despite-method".into(), 100));
        v.push(("original/explicit-host".into(), 1000));
        v.push(("original/host-header-names-another-host".into(), 300));
        v.push(("redirected/head-through-small-buffers".into(), 1000));
        v.push(("previous-added-credential/not-carried-over".into(), 1000));
        v
    }
}
