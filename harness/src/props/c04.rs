//! C04 — Content-Length request body is forwarded verbatim and never exceeds the length.
use crate::core::{Property, Rec, Tier, Workload};
use crate::drive::BodySender;
use crate::rng::Rng;

pub struct P;

fn pick_n(rng: &mut Rng, idx: u64) -> u64 {
    match idx % 8 {
        0 => idx / 8 % 70_001, // stratified sweep of 0..=70000
        1 => *rng.pick(&[0u64, 1, 2, 3, 5, 255, 256, 65_535, 65_536, 70_000]),
        2 => *rng.pick(&[u32::MAX as u64 - 1, u32::MAX as u64, u32::MAX as u64 + 1, u64::MAX - 1, u64::MAX, 1 << 40]),
        3 => rng.below(40),
        _ => rng.below(70_001),
    }
}

fn case(rng: &mut Rng, idx: u64, rec: &mut Rec) {
    let n = pick_n(rng, idx);
    let use_call = rng.chance(1, 4);
    // sender variants: explicit Host, despite-method GET, and (one case in four) the Expect routes
    let mut variant: u32 = rng.below(4) as u32 | [0u32, 0, 0, 8, 16, 0, 0, 0][rng.below(8) as usize] | (rng.below(4) as u32) << 5;
    // one more head write after completion; an HTTP/1.0 request; a flow produced by a redirect whose
    // original was chunked (the content-length added in Prepare is this body's own framing)
    variant |= [0u32, 0, 256, 512, 4096, 0, 2048, 0][rng.below(8) as usize];
    if rng.chance(1, 6) && variant & (2048 | 4096) == 0 {
        variant |= 16384;
        rec.cov("sender-route/with-a-coding-that-is-not-chunked");
    }
    if rng.chance(1, 5) {
        // the length is written with leading zeros
        variant |= 32768;
        if variant & (2048 | 4096) == 0 {
            rec.cov("sender-route/length-with-leading-zeros");
        }
    }
    if rng.chance(1, 4) {
        variant |= 8192;
        if !use_call && variant & (2048 | 4096) == 0 {
            rec.cov("sender-route/head-line-by-line");
        }
    }
    if variant & 2048 != 0 && !use_call {
        rec.cov("sender-route/redirected-with-own-content-length");
    }
    rec.cov(&format!("sender-variant/{}", variant & 31));
    if !use_call && variant & 24 != 0 {
        rec.cov(if variant & 8 != 0 { "sender-route/expect-gave-up" } else { "sender-route/expect-got-100" });
    }
    let mut s = match crate::drive::body_sender_ex(Some(n), false, use_call, variant) {
        Ok(s) => s,
        Err(e) => {
            rec.fail("C04/setup", e);
            return;
        }
    };
    rec.ev(|| format!("Content-Length: {} api={}", n, s.api()));
    let src = crate::wire::payload(80_000, (idx % 251) as u8);
    let mut pos = 0usize; // position in src (wraps are not needed: at most 70k + small)
    let mut left: u64 = n;
    let mut called = false;
    let ops = rng.usize_in(1, 40);
    for step in 0..ops {
        let left_us = left.min(usize::MAX as u64) as usize;
        let kind = rng.below(10);
        if kind < 2 && !use_call {
            // direct write report
            let a = match rng.below(6) {
                0 => 0,
                1 => left_us,
                2 => left_us.saturating_add(1),
                3 => left_us / 2,
                _ => rng.usize_in(0, left_us.min(5000)),
            };
            let f = match &mut s {
                BodySender::Flow(f) => f,
                _ => unreachable!(),
            };
            rec.call();
            let r = f.consume_direct_write(a);
            let fin = f.can_proceed();
            rec.ev(|| format!("consume_direct_write({}) -> {:?} finished={} (model left {})", a, r, fin, left));
            if a as u64 > left {
                rec.cov("direct/overshoot");
                if r.is_ok() {
                    rec.fail("C04/direct-overshoot-accepted", format!("consume_direct_write({}) accepted with {} bytes remaining", a, left));
                    return;
                }
            } else {
                rec.cov(if a as u64 == left { "direct/exact" } else { "direct/partial" });
                if let Err(e) = r {
                    rec.fail("C04/direct-valid-refused", format!("consume_direct_write({}) with {} remaining -> Err({:?})", a, left, e));
                    return;
                }
                left -= a as u64;
                pos = (pos + a) % 9000;
                called = true;
            }
        } else {
            let k = match rng.below(9) {
                0 => 0,
                1 => left_us.min(75_000),
                2 => (left_us.min(75_000)).saturating_add(1),
                3 => left_us.min(75_000).saturating_sub(1),
                4 => rng.usize_in(0, 3),
                _ => rng.usize_in(0, left_us.min(30_000).max(3)),
            }
            .min(src.len() - 9001);
            let out = match rng.below(8) {
                0 => 0,
                1 => k,
                2 => k.saturating_sub(1),
                3 => k + 1,
                4 => rng.usize_in(0, 5),
                5 => 1 << 17,
                _ => rng.usize_in(0, 2 * k + 8),
            };
            let input = &src[pos..pos + k];
            let mut buf = vec![0xEEu8; out];
            rec.call();
            let r = s.write(input, &mut buf);
            let fin = s.finished();
            rec.ev(|| format!("write(in={}, out={}) -> {:?} finished={} (model left {})", k, out, r, fin, left));
            let rel = if (k as u64) < left { "lt" } else if k as u64 == left { "eq" } else { "gt" };
            let lc = if left == 0 { "left=0" } else if left == 1 { "left=1" } else { "left>1" };
            rec.cov(&format!("write/{}/in-{}-left/{}", lc, rel, if out == 0 { "out=0" } else if out < k { "out<in" } else { "out>=in" }));
            if k as u64 > left {
                // offering more than remains (this includes any non-empty write after the end)
                match r {
                    Err(_) => {}
                    Ok((c, p)) => {
                        rec.fail(
                            if left == 0 { "C04/write-after-end-accepted" } else { "C04/overlong-write-accepted" },
                            format!("write(in={}, out={}) with {} remaining -> Ok(({}, {}))", k, out, left, c, p),
                        );
                        return;
                    }
                }
            } else {
                match r {
                    Err(e) => {
                        rec.fail("C04/valid-write-refused", format!("write(in={}, out={}) with {} remaining -> Err({:?})", k, out, left, e));
                        return;
                    }
                    Ok((c, p)) => {
                        let want = k.min(out).min(left_us);
                        if c != want || p != want {
                            rec.fail(
                                "C04/count-not-min-of-three",
                                format!("write(in={}, out={}) with {} remaining -> ({}, {}), expected ({}, {})", k, out, left, c, p, want, want),
                            );
                            return;
                        }
                        if buf[..p] != input[..c] {
                            rec.fail("C04/bytes-altered", format!("write(in={}, out={}): output differs from input", k, out));
                            return;
                        }
                        if buf[p..].iter().any(|b| *b != 0xEE) {
                            rec.fail("C04/wrote-beyond-reported", format!("write(in={}, out={}): bytes beyond the reported {} were modified", k, out, p));
                            return;
                        }
                        left -= c as u64;
                        pos = (pos + c) % 9000;
                        called = true;
                    }
                }
            }
        }
        let fin = s.finished();
        if fin && left != 0 {
            rec.fail("C04/finished-early", format!("step {}: reported finished with {} bytes still owed", step, left));
            return;
        }
        if !fin && left == 0 && called {
            rec.fail("C04/not-finished-at-n", format!("step {}: all {} bytes accounted for and a call observed it, but not reported finished", step, n));
            return;
        }
        if fin {
            rec.cov("finished");
        }
    }
}

impl Property for P {
    fn id(&self) -> &'static str {
        "C04"
    }
    fn rule(&self) -> String {
        "reference model = a countdown from N. Random histories (1..40 ops) of write / empty write / consume_direct_write / overshoot-by-one against Flow<SendBody> and Call<WithBody>; each result must equal the model (consumed == produced == min(input, space, remaining), bytes identical, refusals leave no trace, finished <=> remaining == 0 once observed). N sweeps 0..=70000 plus u32/u64 extremes. Senders: POST, GET/TRACE/DELETE/OPTIONS through the escape hatch, explicit Host, and flows that reached SendBody through Await100 (gave up, or 100 received). class = (remaining 0/1/>1) x (input vs remaining) x (buffer vs input) and direct-write kinds.".into()
    }
    fn assumptions(&self) -> Vec<String> {
        vec!["a refused call is only known to have had no effect through the model continuing to match afterwards".into()]
    }
    fn workloads(&self, tier: Tier) -> Vec<Workload> {
        vec![Workload::new("histories", tier.pick(40_000, 8_000_000), false, "random op histories over stratified N")]
    }
    fn run_case(&self, _wl: &str, idx: u64, seed: u64, rec: &mut Rec) {
        let mut rng = Rng::derive(seed, "C04", idx);
        case(&mut rng, idx, rec)
    }
    fn floors(&self, _tier: Tier) -> Vec<(String, u64)> {
        vec![
            ("write/left=0/in-gt-left*".into(), 100),
            ("write/left=1/*".into(), 20),
            ("write/left>1/in-eq-left*".into(), 100),
            ("write/left>1/in-gt-left*".into(), 100),
            ("direct/overshoot".into(), 100),
            ("direct/exact".into(), 100),
            ("finished".into(), 1000),
            ("sender-route/expect-gave-up".into(), 500),
            ("sender-route/expect-got-100".into(), 500),
            ("sender-route/redirected-with-own-content-length".into(), 500),
        ]
    }
}
