//! C01 — exchange outcome is independent of I/O segmentation and buffer sizes.
use crate::core::{Property, Rec, Tier, Workload};
use crate::drive::*;
use crate::hookmon;
use crate::json::esc_short;
use crate::model::*;
use crate::rng::Rng;
use crate::wire::*;

pub struct P;

/// Compare what one driven exchange observed with the ground truth of its description.
/// `ref_head`: request head bytes of the one-shot run of the same request.
pub fn check_against_truth(d: &Driver, ex: &Exchange, truth: &Truth, ref_head: Option<&[u8]>, sig: &str, rec: &mut Rec) -> bool {
    if let Some(rh) = ref_head {
        if d.head_out != rh {
            rec.fail(
                &format!("{}/request-head-differs-by-schedule", sig),
                format!("head under this schedule {:?} vs one-shot {:?}", esc_short(&d.head_out, 120), esc_short(rh, 120)),
            );
            return false;
        }
    }
    if let Some((k, out)) = d.stalled_with_room {
        rec.fail(
            &format!("{}/send-stalled-with-room", sig),
            format!("a body write offering {} bytes into a {}-byte buffer consumed and produced nothing: under a schedule that keeps this buffer size the exchange never completes", k, out),
        );
        return false;
    }
    // request payload
    if truth.body_sent {
        let chunked = d.head_out.windows(28).any(|w| w.eq_ignore_ascii_case(b"transfer-encoding: chunked\r\n"));
        let payload: Vec<u8> = if chunked {
            match decode_chunked_strict(&d.body_out) {
                Ok(dc) => {
                    if !dc.terminated {
                        rec.fail(&format!("{}/request-body-not-terminated", sig), "chunked request body left without its terminating chunk".into());
                        return false;
                    }
                    dc.data
                }
                Err(e) => {
                    rec.fail(&format!("{}/request-body-coding", sig), format!("request body on the wire is not a valid chunked coding: {}", e));
                    return false;
                }
            }
        } else {
            d.body_out.clone()
        };
        if payload != ex.req_body {
            rec.fail(
                &format!("{}/request-payload", sig),
                format!("request payload on the wire has {} bytes, the body given has {} (first difference at {:?})", payload.len(), ex.req_body.len(), payload.iter().zip(ex.req_body.iter()).position(|(a, b)| a != b)),
            );
            return false;
        }
    } else if !d.body_out.is_empty() {
        rec.fail(&format!("{}/body-sent-although-not-due", sig), format!("{} body bytes were emitted", d.body_out.len()));
        return false;
    }
    // response head
    match &d.resp {
        None => {
            rec.fail(&format!("{}/no-response", sig), "no response object was produced".into());
            return false;
        }
        Some(r) => {
            if r.status != ex.head.status || r.http10 != ex.head.http10 {
                rec.fail(&format!("{}/response-status", sig), format!("status {} http10={} reported, {} http10={} sent", r.status, r.http10, ex.head.status, ex.head.http10));
                return false;
            }
            if let Err(e) = same_fields(&truth.fields, &r.headers) {
                rec.fail(&format!("{}/response-fields", sig), e);
                return false;
            }
        }
    }
    // which responses were handed to the caller, in order: interim 100s nobody awaited (the first of them is
    // passed over when the request carried an expectation that was never awaited, or was given up), then the
    // final one - the same whatever the segmentation
    {
        let mut interim = ex.unsolicited_100;
        if interim > 0 && ex.cfg.expect_100() && (!ex.cfg.sends_body() || matches!(ex.handshake, Handshake::GiveUp(_))) {
            // the wait for a 100 was never settled (nothing awaited, or given up): the first 100 is "the late one"
            interim -= 1;
        }
        if matches!(ex.handshake, Handshake::Late100(_)) {
            interim += ex.extra_interim;
        }
        let mut want: Vec<u16> = vec![100; interim];
        want.push(ex.head.status);
        let got: Vec<u16> = d.response_log.iter().filter_map(|(_, _, s)| *s).collect();
        if got != want {
            rec.fail(&format!("{}/responses-handed-out", sig), format!("responses handed to the caller {:?}, the stream holds {:?} to hand out (handshake {:?})", got, want, ex.handshake));
            return false;
        }
    }
    if d.resp_body != truth.body_data {
        rec.fail(
            &format!("{}/response-body", sig),
            format!(
                "response body delivered {} bytes, sent {} (framing {:?}); first difference at {:?}",
                d.resp_body.len(),
                truth.body_data.len(),
                truth.framing,
                d.resp_body.iter().zip(truth.body_data.iter()).position(|(a, b)| a != b)
            ),
        );
        return false;
    }
    if d.path != truth.path {
        rec.fail(&format!("{}/state-path", sig), format!("states visited {:?}, expected {:?}", d.path, truth.path));
        return false;
    }
    for (state, mc, _) in &d.verdicts {
        if *mc != truth.must_close {
            rec.fail(&format!("{}/reuse-verdict", sig), format!("{}: must_close = {}, conditions {:?}", state, mc, truth.close_bits));
            return false;
        }
    }
    if d.consumed != truth.total_len {
        rec.fail(
            &format!("{}/consumed-total", sig),
            format!("server bytes consumed {} but this exchange's response message(s) are {} bytes long: the next exchange would start at the wrong byte", d.consumed, truth.total_len),
        );
        return false;
    }
    true
}

pub struct Chain {
    pub exchanges: Vec<(Exchange, Truth, usize)>, // (description, truth, offset of its bytes in the stream)
    pub stream: Vec<u8>,
    pub small: bool,
}

pub fn gen_chain(rng: &mut Rng, max_exchanges: usize, body_max: usize) -> Chain {
    let n = rng.usize_in(1, max_exchanges);
    let mut stream = Vec::new();
    let mut exchanges = Vec::new();
    let mut tries = 0;
    while exchanges.len() < n && tries < 50 {
        tries += 1;
        let last = exchanges.len() + 1 == n;
        let (cfg, req_body) = random_req(rng, body_max);
        let expect = cfg.expect_100() && cfg.sends_body();
        let handshake = if !expect {
            Handshake::None
        } else {
            match rng.below(4) {
                0 => Handshake::Got100,
                1 => Handshake::GiveUp(rng.usize_in(0, 3)),
                2 => Handshake::Late100(rng.usize_in(0, 3)),
                _ => Handshake::Refused,
            }
        };
        let (head, body, close_data) = random_response(rng, body_max, last, &format!("e{}", exchanges.len()));
        let ex = Exchange {
            cfg,
            req_body,
            handshake,
            interim_reason: *rng.pick(&["Continue", "", "Go Ahead Please"]),
            head,
            body,
            close_data,
            extra_interim: 0,
        unsolicited_100: 0,
        };
        let mut ex = ex;
        if !matches!(ex.handshake, Handshake::Late100(_) | Handshake::Refused) && rng.chance(1, 10) {
            ex.unsolicited_100 = rng.usize_in(1, 2);
        }
        let (bytes, truth) = match ex.render() {
            Some(v) => v,
            None => continue,
        };
        let must_close = truth.must_close;
        let off = stream.len();
        stream.extend_from_slice(&bytes);
        exchanges.push((ex, truth, off));
        if must_close {
            break;
        }
    }
    let small = stream.len() + exchanges.iter().map(|e| e.0.req_body.len()).sum::<usize>() < 4000;
    Chain { exchanges, stream, small }
}

/// Run the whole chain under one schedule. Returns the request heads seen (for cross-schedule comparison).
fn run_chain(chain: &Chain, sched_for: &mut dyn FnMut(usize) -> Sched, ref_heads: Option<&Vec<Vec<u8>>>, rec: &mut Rec) -> Option<Vec<Vec<u8>>> {
    let mut offset = 0usize;
    let mut heads = vec![];
    for (i, (ex, truth, off)) in chain.exchanges.iter().enumerate() {
        if offset != *off {
            rec.fail("C01/next-exchange-offset", format!("exchange {} starts at stream offset {}, its response begins at {}", i, offset, off));
            return None;
        }
        let flow = match build_flow(&ex.cfg) {
            Ok(f) => f,
            Err(e) => {
                rec.fail("C01/setup", format!("{:?}", e));
                return None;
            }
        };
        let mut sched = sched_for(i);
        if sched.partial_on && (300..400).contains(&ex.head.status) {
            sched.partial_on = false;
        }
        if sched.partial_on {
            // the answer is not a redirect: the opt-in for truncated redirect heads must make no difference
            rec.cov("schedule/opt-in-on-for-a-non-redirect");
        }
        rec.ev(|| format!("exchange {}: {} | body {}B | handshake {:?} | response {} {:?} {}B at offset {} | schedule: {}", i, ex.cfg.describe(), ex.req_body.len(), ex.handshake, ex.head.status, truth.framing, truth.total_len, off, sched.describe()));
        let mut d = Driver::new(flow, &ex.cfg, &ex.req_body, &chain.stream[offset..], truth.scen, sched);
        let end = d.run(rec);
        if hookmon::partial_redirects_in_case() > 0 {
            // a schedule that stopped inside a 3xx head after its Location line: owned by C05
            rec.stat("schedules-owned-by-C05", 1);
            return None;
        }
        if end != Step::Done {
            rec.fail("C01/exchange-did-not-complete", format!("exchange {}: {:?}; {}", i, end, d.summary()));
            return None;
        }
        if !check_against_truth(&d, ex, truth, ref_heads.map(|h| h[i].as_slice()), "C01", rec) {
            return None;
        }
        if d.direct_writes > 0 {
            rec.cov("schedule/direct-write-reports");
        }
        if let Prof::Fixed(n) = d.sched.head_out {
            // every buffer had this size: when each single line of the head fits into it, no call may have
            // been refused, and the head must have come out without the driver falling back to a big buffer
            let longest = d.head_out.split_inclusive(|b| *b == b'\n').map(|l| l.len()).max().unwrap_or(0);
            if n >= longest {
                rec.cov(if n == longest { "schedule/head-buffers-of-longest-line" } else { "schedule/head-buffers-fixed" });
                if d.head_overflows > 0 {
                    rec.fail(
                        "C01/head-refused-although-every-line-fits",
                        format!("exchange {}: {} of {} head writes into {} byte buffers were refused with OutputOverflow, the longest line of the head has {} bytes", i, d.head_overflows, d.head_calls, n, longest),
                    );
                    return None;
                }
            }
        }
        heads.push(d.head_out.clone());
        offset += d.consumed;
        if d.must_close() == Some(true) {
            break;
        }
    }
    Some(heads)
}

fn random_case(rng: &mut Rng, schedules: usize, rec: &mut Rec) {
    let body_max = match rng.below(5) {
        0 => 70_000,
        1 => 12_000,
        _ => 600,
    };
    let chain = gen_chain(rng, 3, body_max);
    if chain.exchanges.is_empty() {
        return;
    }
    rec.cov(&format!("chain-of-{}", chain.exchanges.len()));
    for (ex, truth, _) in &chain.exchanges {
        rec.cov(&format!("framing/{}/{}", truth.rule, truth.terminal));
        if ex.unsolicited_100 > 0 {
            rec.cov("unsolicited-100");
        }
        rec.cov(&format!("handshake/{:?}", std::mem::discriminant(&ex.handshake)).replace("Discriminant", "").as_str());
        rec.cov(&format!("request/{}/{}", if ex.cfg.sends_body() { if ex.cfg.declared_len().is_some() { "sized-body" } else { "chunked-body" } } else { "no-body" }, ex.cfg.ver.token()));
    }
    // reference: one-shot
    let heads = match run_chain(&chain, &mut |_| Sched::big(), None, rec) {
        Some(h) => h,
        None => return,
    };
    for _ in 0..schedules {
        let mut r2 = rng.fork();
        let small = chain.small;
        let mut mk = |_i: usize| {
            let mut s = Sched::random(&mut r2, small);
            s.partial_on = r2.chance(1, 6);
            s
        };
        // coverage of schedule classes
        if run_chain(&chain, &mut mk, Some(&heads), rec).is_none() {
            return;
        }
        rec.cov(if small { "schedule/small-payload-profiles" } else { "schedule/large-payload-profiles" });
    }
    // one more schedule: every buffer offered for the head is exactly as long as its longest line
    let mut r2 = rng.fork();
    let small = chain.small;
    let mut mk = |i: usize| {
        let mut s = Sched::random(&mut r2, small);
        let longest = heads.get(i).map(|h| h.split_inclusive(|b| *b == b'\n').map(|l| l.len()).max().unwrap_or(0)).unwrap_or(64);
        s.head_out = Prof::Fixed(longest);
        s
    };
    let _ = run_chain(&chain, &mut mk, Some(&heads), rec);
}

/// One short exchange, every single arrival cut and (short ones) every pair.
fn cut_case(rng: &mut Rng, rec: &mut Rec) {
    let chain = gen_chain(rng, 2, 40);
    if chain.exchanges.is_empty() {
        return;
    }
    let heads = match run_chain(&chain, &mut |_| Sched::big(), None, rec) {
        Some(h) => h,
        None => return,
    };
    // cuts are relative to each exchange's slice; apply them to the first exchange only and to all
    let len0 = chain.exchanges[0].1.total_len;
    let total = chain.stream.len();
    let run_with = |cuts: Vec<usize>, rec: &mut Rec| -> bool {
        let mut mk = |i: usize| {
            let mut s = Sched::big();
            s.read_out = Prof::Fixed(7);
            if i == 0 {
                s.cuts = cuts.clone();
            } else {
                s.cuts = cuts.iter().filter(|c| **c > len0).map(|c| c - len0).collect();
                if s.cuts.is_empty() {
                    s.arrive = Prof::One;
                }
            }
            s
        };
        run_chain(&chain, &mut mk, Some(&heads), rec).is_some()
    };
    for c in 1..total {
        rec.cov("single-cut");
        if !run_with(vec![c], rec) {
            return;
        }
    }
    if total <= 160 {
        for a in 1..total {
            for b in a + 1..total {
                rec.cov("double-cut");
                if !run_with(vec![a, b], rec) {
                    return;
                }
            }
        }
    } else {
        for _ in 0..300 {
            let a = rng.usize_in(1, total - 2);
            let b = rng.usize_in(a + 1, total - 1);
            rec.cov("double-cut");
            if !run_with(vec![a, b], rec) {
                return;
            }
        }
    }
}

impl Property for P {
    fn id(&self) -> &'static str {
        "C01"
    }
    fn rule(&self) -> String {
        "chains of 1..3 exchanges on one connection: request configs over 9 methods x 1.0/1.1 x (Content-Length | chunked | default) x Expect (100 received / gave up / late 100 / refused) x despite-method, server streams rendered from structured responses (any status, length / chunked / close-delimited / no body, random fields) back to back. Each chain runs one-shot and then under K seeded schedules (head buffer sizes, body input and output sizes, arrival slicing incl. 1-byte and 0..3 bytes, read buffer sizes incl. 0, read-only queries interleaved, boundary stop). Every run is compared with the ground truth of the description (request head == one-shot head, request payload recovered from the wire with a strict dechunker, response status/fields/body, states visited, reuse verdict) and the consumed count must equal the exact length of that exchange's message(s); exchange i+1 starts where exchange i stopped. Second workload: short chains under every single arrival cut and every pair of cuts. One schedule in four reports part of a length-delimited request body through consume_direct_write instead of write. class = framing rule x terminal, handshake, request shape, chain length, schedule family.".into()
    }
    fn assumptions(&self) -> Vec<String> {
        vec![
            "schedules that stop inside a 3xx head after its Location line are excluded when the PartialRedirect hook fires (owned by C05); with the default (opt-in off) this never happens".into(),
            "the give-up scenarios of Expect are part of the request/server description, not of the schedule: the caller gives up only while nothing has arrived".into(),
            "a well-formed server sends no body where the rules say there is none (HEAD, 204, 304, 1xx)".into(),
        ]
    }
    fn workloads(&self, tier: Tier) -> Vec<Workload> {
        vec![
            if tier == Tier::Quick {
                Workload::new("random-chains", 3_000, false, "random chains x (1 one-shot + 6 seeded schedules)")
            } else {
                Workload::new("random-chains-x8", 1_000_000, false, "random chains x (1 one-shot + 8 seeded schedules)")
            },
            Workload::new("all-cuts", tier.pick(150, 6_000), false, "short chains x every single cut and every pair of cuts"),
        ]
    }
    fn run_case(&self, wl: &str, idx: u64, seed: u64, rec: &mut Rec) {
        let mut rng = Rng::derive(seed, wl, idx);
        if wl == "random-chains" {
            random_case(&mut rng, 6, rec)
        } else if wl == "random-chains-x8" {
            random_case(&mut rng, 8, rec)
        } else {
            cut_case(&mut rng, rec)
        }
    }
    fn floors(&self, _tier: Tier) -> Vec<(String, u64)> {
        [
            "chain-of-1", "chain-of-2", "chain-of-3", "framing/chunked/*", "framing/length/*", "framing/close/Cleanup", "framing/HEAD/*", "framing/redirect-without-framing/Redirect", "request/sized-body/*", "request/chunked-body/*",
            "request/no-body/HTTP/1.0", "single-cut", "double-cut", "unsolicited-100", "schedule/direct-write-reports", "schedule/head-buffers-of-longest-line", "schedule/opt-in-on-for-a-non-redirect", "schedule/small-payload-profiles", "schedule/large-payload-profiles", "hook:dechunk:Trailer->Ending", "hook:tick:write_chunk",
        ]
        .iter()
        .map(|k| (k.to_string(), 20))
        .collect()
    }
}
