#!/bin/sh
# tools/lanes.sh <ID>
# Miri and ASan lanes for the properties whose (hostile) server bytes reach `unsafe` code in the
# dependencies (httparse SIMD, http's HeaderName/HeaderValue/HeaderMap, url): C05, C12, C20.
# ureq-proto itself is #![forbid(unsafe_code)], so for every other property a sanitizer adds nothing.
# exit 0 = lanes clean, 1 = VIOLATION (UB / ASan report / monitor violation under the lane), 2 = inconclusive.
set -u
ID=${1:?property id}
case "$ID" in C05|C12|C20) ;; *) exit 0 ;; esac
HERE=$(cd "$(dirname "$0")/.." && pwd)
REPO=${VERIF_REPO:-/repo}
SEED=${VERIF_SEED:-1}
export CARGO_NET_OFFLINE=true
cd "$HERE/harness" || exit 2
[ "$(readlink .repo 2>/dev/null)" = "$REPO" ] || ln -sfn "$REPO" .repo
OUT="$HERE/harness/target/lanes-$ID"
rm -rf "$OUT"; mkdir -p "$OUT"
T0=$(date +%s)

# ---------------------------------------------------------------- Miri
MIRI_SHARDS=${VERIF_MIRI_SHARDS:-16}
MIRI_CASES=${VERIF_MIRI_CASES:-10}
miri_status=clean
if ! timeout 900 cargo +nightly miri run --offline --bin lane -- "$ID" none 0 0 "$SEED" >"$OUT/miri-build.log" 2>&1; then
  miri_status=inconclusive
  echo "lanes: Miri build failed (inconclusive):"; tail -5 "$OUT/miri-build.log"
else
  case "$ID" in
    C05) WLS="heads redirect-cuts" ;;
    C12) WLS="mutations alphabet-5 byte-sweeps tokens-3" ;;
    C20) WLS="responses requests" ;;
  esac
  i=0
  for wl in $WLS; do
    s=0
    while [ $s -lt $MIRI_SHARDS ]; do
      case "$wl" in
        alphabet-5) start=$((s * 100003 + 17)); stride=8053 ;;
        tokens-3)   start=$((s * 1999 + 3)); stride=131 ;;
        byte-sweeps) start=$((s * 127)); stride=13 ;;
        *) start=$((s * MIRI_CASES)); stride=1 ;;
      esac
      n=$MIRI_CASES
      # spread the shards of the second.. workloads thinner so that the lane stays around two minutes
      [ $i -gt 0 ] && n=$((MIRI_CASES / 2 + 1))
      ( timeout 1500 cargo +nightly miri run --offline --bin lane -- "$ID" "$wl" "$start" "$n" "$SEED" "$stride" >"$OUT/miri-$wl-$s.log" 2>&1; echo "rc=$?" >>"$OUT/miri-$wl-$s.log" ) &
      s=$((s + 1))
      # at most MIRI_SHARDS interpreters at a time
      if [ $((s % MIRI_SHARDS)) -eq 0 ]; then wait; fi
    done
    wait
    i=$((i + 1))
  done
fi

# ---------------------------------------------------------------- ASan
asan_status=clean
ASAN_DIR="$HERE/harness/target/asan"
if ! RUSTFLAGS="-Zsanitizer=address -Cforce-frame-pointers=yes" CARGO_TARGET_DIR="$ASAN_DIR" \
     timeout 900 cargo +nightly build --release --offline --target x86_64-unknown-linux-gnu --bin check >"$OUT/asan-build.log" 2>&1; then
  asan_status=inconclusive
  echo "lanes: ASan build failed (inconclusive):"; tail -5 "$OUT/asan-build.log"
else
  mkdir -p "$OUT/asan-verif"
  cp "$HERE/KNOWN_FINDINGS.txt" "$OUT/asan-verif/" 2>/dev/null
  ASAN_OPTIONS="halt_on_error=1:abort_on_error=0:detect_leaks=0:exitcode=66" VERIF_DIR="$OUT/asan-verif" VERIF_SEED="$SEED" \
    timeout 1800 "$ASAN_DIR/x86_64-unknown-linux-gnu/release/check" "$ID" quick >"$OUT/asan-run.log" 2>&1
  echo "rc=$?" >>"$OUT/asan-run.log"
fi

python3 "$HERE/tools/merge_lanes.py" "$ID" "$OUT" "$miri_status" "$asan_status" "$(( $(date +%s) - T0 ))"
