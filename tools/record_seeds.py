#!/usr/bin/env python3
"""Copy sub-agent seeds into /verif/seeded/<id>/, re-confirm them and record which quick checks catch them."""
import json, os, re, shutil, subprocess, sys, glob
src = sys.argv[1] if len(sys.argv) > 1 else "/tmp/seed-out"
only = sys.argv[2:]
for d in sorted(glob.glob(os.path.join(src, "C[0-9][0-9]-[a-z]"))):
    name = os.path.basename(d)
    if only and name not in only:
        continue
    dst = os.path.join("/verif/seeded", name)
    os.makedirs(dst, exist_ok=True)
    for f in ("patch.diff", "demo.rs"):
        shutil.copy(os.path.join(d, f), os.path.join(dst, f))
    meta = json.load(open(os.path.join(d, "meta.json")))
    out = subprocess.run(["/verif/tools/try_seed.sh", dst], capture_output=True, text=True).stdout
    confirm = re.search(r"^confirm: (.*)$", out, re.M)
    caught = {}
    for m in re.finditer(r"^(C\d+) caught \[(.*)\]$", out, re.M):
        caught[m.group(1)] = [s for s in m.group(2).split(",") if s]
    inconc = re.findall(r"^(C\d+) inconclusive", out, re.M)
    meta["origin"] = "independent sub-agent given only the property text and a scratch worktree"
    meta["confirmed_by_me"] = {
        "how": "tools/try_seed.sh: scratch worktree of /repo HEAD; git apply; cargo build --features verif-hooks; cargo test --offline (70 unit + 5 doc); demo as tests/demo.rs fails with the change and passes without it",
        "result": confirm.group(1) if confirm else "?",
    }
    meta["checks_run"] = "every ./check <ID> quick with the patch applied to /repo (git apply), then git checkout -- ."
    meta["caught_by"] = caught
    meta["inconclusive"] = inconc
    meta["caught_by_own_property_check"] = meta["property"] in caught
    json.dump(meta, open(os.path.join(dst, "meta.json"), "w"), indent=1)
    print(name, "confirm=", meta["confirmed_by_me"]["result"], "caught_by=", sorted(caught), "own=", meta["caught_by_own_property_check"], flush=True)
