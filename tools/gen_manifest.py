#!/usr/bin/env python3
"""Regenerates /verif/MANIFEST.json from the table below (one row per given property)."""
import json, os, subprocess, sys

HERE = os.path.dirname(os.path.dirname(os.path.abspath(__file__)))

# id: (built?, level, technique, text, note, design_ref)
P = {
 "C01": (False, "exploration", "metamorphic + ground-truth monitor over I/O segmentation schedules", "", "", "6/C01"),
 "C02": (False, "exploration", "strict wire-parser oracle on emitted request heads over buffer-size schedules", "", "", "6/C02"),
 "C03": (True, "exploration", "reference-model monitor on every chunked body write; exhaustive short histories + random",
         "Every call of the chunked request-body writer is checked online against a reference model (strict chunk decoder, consumed-input shadow, terminator/finished state). All histories of length 3 (quick) / 4 (thorough) over inputs {0,1,2,5,6,7} x outputs 0..=12 are enumerated on both APIs, plus seeded random histories with inputs beyond one 10 KiB chunk. Held-on-observed only; exhaustive within that alphabet.",
         "trusted: my strict decoder (wire.rs), the http crate's request builder; an Err(OutputOverflow) for buffers < 6 bytes is tolerated", "6/C03"),
 "C04": (True, "exploration", "countdown reference model monitored over random write/direct-write histories",
         "Random histories of write / empty write / consume_direct_write / overshoot attempts are replayed against a countdown model for N swept over 0..=70000 and u32/u64 extremes; every call result, every output byte and the finished flag are compared online.",
         "trusted: the model (a counter); refused calls are judged side-effect free through the model staying in agreement afterwards", "6/C04"),
 "C05": (False, "exploration", "ground-truth-by-construction oracle over every prefix of generated heads (+ Miri/ASan lane)", "", "", "6/C05"),
 "C06": (True, "exploration", "exhaustive decision-table monitor against an RFC 9112 reference rule", "The whole decision table is executed: 9 methods x statuses 101..=999 x response version x 11 Content-Length shapes x 8 Transfer-Encoding shapes through the Flow API (1.4 M real heads with a body in the expected framing and a following response), and a 14-status table through the Call API to separate no-body from zero-length. Outcomes are compared with an independent restatement of RFC 9112 6.3. Exhaustive within that table; cells the statement leaves open are don't-care.", "trusted: wire::body_rule (my reading of the statement); don't-care cells listed in the evidence assumptions", "6/C06"),
 "C07": (False, "exploration", "generator-known coding vs decoder output under enumerated cut sets; decoder-transition hooks for coverage", "", "", "6/C07"),
 "C08": (False, "exploration", "reference min-of-three model over random read schedules with trailing bytes", "", "", "6/C08"),
 "C09": (False, "exploration", "typestate reference graph + hook invariant over random call histories with premature advances", "", "", "6/C09"),
 "C10": (True, "exploration", "exhaustive close-condition product vs disjunction model", "All 32 close-condition vectors are realised by an exhaustive product of request version/Connection, Expect handshake outcome, response version/status/framing/Connection, each run as a complete exchange to Cleanup (through Redirect for 3xx), one-shot and under seeded random I/O schedules; verdict and reason at both exit states are compared with the disjunction. Floors require every vector on every feasible exit path.", "trusted: the exchange model (model.rs); reason texts are matched by keyword, unknown wording is not judged", "6/C10"),
 "C11": (False, "exploration", "handshake reference model over every look/give-up prefix, runs continued to completion", "", "", "6/C11"),
 "C12": (False, "fault_enumeration", "hostile byte enumeration + grammar mutations under panic/step-budget/copy-subsequence monitors (+ Miri/ASan lane)", "", "", "6/C12"),
 "C13": (False, "exploration", "tagged-header provenance monitor over redirect chains", "", "", "6/C13"),
 "C14": (False, "exploration", "independent RFC 3986 resolver as oracle over redirect chains", "", "", "6/C14"),
 "C15": (True, "exploration", "exhaustive method x status table monitor", "The full table 9 methods x 300..=399 x 2 policies x 3 body shapes x request version is run as real exchanges; redirect-state entry, reported status, follow/not-follow and the new method are compared with the table of the statement. Exhaustive.", "trusted: wire::redirect_method restating the table", "6/C15"),
 "C16": (False, "exploration", "tagged-header wire monitor across redirect depth", "", "", "6/C16"),
 "C17": (True, "exploration", "exhaustive request-validity product vs six-class model", "The product 5 versions x 9 methods x 5 Host shapes x 9 Content-Length shapes x 4 Transfer-Encoding shapes x despite x 3 APIs (48 600 cells) is written twice per cell and compared with the six-class model: reject = error twice and never ready, accept = bytes and ready. Exhaustive within the product.", "trusted: the six-class model; non-textual Host and without-body-constructor+framing-headers cells are don't-care", "6/C17"),
 "C18": (True, "exploration", "exhaustive sweep of n with a real write per n, strict decode of the wire",
         "For every n in 0..=3*10248+64 (enumerated) and random n up to 2^22 the advertised maximum is fed to a real write into an n-byte buffer; consumed must equal the advertised size, the bound and monotonicity are checked, the wire is strictly decoded.",
         "trusted: strict chunk decoder; fresh flow per n", "6/C18"),
 "C19": (True, "exploration", "exhaustive (L,n) sweep with fresh flows + bounded whole-body loops, loop-tick budget hook",
         "consumed(L,n) is measured for every n in 6..=300 x L in 1..=320, around multiples of the chunk size, and random pairs; progress, dominance over the advertised maximum and monotonicity in L are asserted; whole-body loops with fixed buffers must finish within |body| iterations (bounded restatement of termination), with the in-crate loop tick hook enforcing a per-call step budget.",
         "liveness restated as bounded progress; a stuck process is caught by the step budget, never by wall clock", "6/C19"),
 "C20": (False, "exploration", "round-trip oracle over every prefix for N in {0,1,4,128} (+ Miri/ASan lane)", "", "", "6/C20"),
}

def hook_commits():
    try:
        out = subprocess.check_output(["git", "-C", "/repo", "log", "--format=%H %s"], text=True)
        return [l.split()[0] for l in out.splitlines() if l.split(" ", 1)[1].startswith("verif-hooks")]
    except Exception:
        return []

checks, na = [], []
for pid in sorted(P):
    built, level, tech, text, note, ref = P[pid]
    if not built:
        na.append({"property_id": pid, "reason": "check not built yet (work in progress; DESIGN.md section %s describes the planned monitor)" % ref})
        continue
    checks.append({
        "property_id": pid,
        "quick_cmd": "./check %s quick" % pid,
        "thorough_cmd": "./check %s thorough" % pid,
        "evidence_file": "/verif/evidence/%s.json" % pid,
        "replay_cmd_template": "./check %s --replay {path}" % pid,
        "engine": "hootmon",
        "level_claimed": {"category": level, "text": text, "design_ref": "DESIGN.md section " + ref},
        "level_note": note,
        "technique": "runtime monitoring: " + tech,
    })

m = {
 "version": 1,
 "setup_cmd": "./setup.sh",
 "hooks": {
   "guard": "cargo feature verif-hooks (ureq-proto)",
   "enable": "the harness depends on ureq-proto by path (harness/.repo -> /repo) with features = [\"verif-hooks\"]; every ./check run does an incremental cargo build --release --offline of the working tree",
   "baseline_off_cmd": "cd /repo && cargo test --workspace --no-fail-fast --offline",
   "source_commits": hook_commits(),
   "add_only": True,
 },
 "engines": [{
   "name": "hootmon",
   "path": "/verif/harness",
   "serves_properties": [c["property_id"] for c in checks],
   "kind_free_text": "Rust harness: seeded/enumerated workloads drive the public API of the working tree under I/O segmentation schedules while reference-model oracles, in-crate hook monitors (typestate invariant, loop step budget, decoder-transition coverage) and panic capture watch every call; Miri and ASan lanes re-run slices that reach unsafe code in dependencies",
 }],
 "checks": checks,
 "not_applicable": na,
 "notes": "exit codes: 0 held on everything observed, 1 VIOLATION (replay file written), 2 inconclusive (build failure, watchdog, coverage floor not reached). VERIF_SEED selects the random streams; enumerated workloads do not depend on it. Known findings: /verif/KNOWN_FINDINGS.txt.",
}
json.dump(m, open(os.path.join(HERE, "MANIFEST.json"), "w"), indent=1)
print("claimed:", [c["property_id"] for c in checks])
