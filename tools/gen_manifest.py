#!/usr/bin/env python3
"""Regenerates /verif/MANIFEST.json from the table below (one row per given property)."""
import json, os, subprocess, sys

HERE = os.path.dirname(os.path.dirname(os.path.abspath(__file__)))

# id: (built?, level, technique, text, note, design_ref)
P = {
 "C01": (True, "exploration", "metamorphic + ground-truth monitor over I/O segmentation schedules", "Chains of 1..3 back-to-back exchanges are rendered from structured descriptions (so every length, payload and field is known), run one-shot and then under seeded schedules of head/body/read buffer sizes and arrival slicing (1-byte, 0..3 bytes, boundary-biased, explicit every-single-cut / every-pair-of-cuts lists) with read-only queries interleaved; every run is compared with ground truth and the consumed count must equal the exact message length, the next exchange starting where the previous stopped. Held-on-observed; schedules are sampled, not enumerated, except for the cut workload.", "trusted: the exchange model (model.rs), strict dechunker; give-up timing of Expect is part of the scenario, not of the schedule", "6/C01"),
 "C02": (True, "exploration", "strict wire-parser oracle on emitted request heads over buffer-size schedules", "Random absolute-URI requests with up to 60+60 headers (repeated names, non-UTF-8 values), explicit/derived Host, caller/default framing, despite-method, at redirect depth 0..3: the emitted head is parsed by an independent strict parser and compared with the model; the framing header is cross-checked against the body writer by sending a real body byte; then the same request is written under buffer-size schedules aimed at every line length -1/0/+1 and each call is judged (whole lines, overflow exactly when the next line does not fit, nothing after completion). Flow and Call APIs.", "trusted: strict head parser (wire.rs), the http crate's HeaderMap iteration order for the original headers; '?q' and '/?q' both accepted for an empty path", "6/C02"),
 "C03": (True, "exploration", "reference-model monitor on every chunked body write; exhaustive short histories + random",
         "Every call of the chunked request-body writer is checked online against a reference model (strict chunk decoder, consumed-input shadow, terminator/finished state). All histories of length 3 (quick) / 4 (thorough) over inputs {0,1,2,5,6,7} x outputs 0..=12 are enumerated on both APIs, plus seeded random histories with inputs beyond one 10 KiB chunk. Held-on-observed only; exhaustive within that alphabet.",
         "trusted: my strict decoder (wire.rs), the http crate's request builder; an Err(OutputOverflow) for buffers < 6 bytes is tolerated", "6/C03"),
 "C04": (True, "exploration", "countdown reference model monitored over random write/direct-write histories",
         "Random histories of write / empty write / consume_direct_write / overshoot attempts are replayed against a countdown model for N swept over 0..=70000 and u32/u64 extremes; every call result, every output byte and the finished flag are compared online.",
         "trusted: the model (a counter); refused calls are judged side-effect free through the model staying in agreement afterwards", "6/C04"),
 "C05": (True, "exploration", "ground-truth-by-construction oracle over every prefix of generated heads (+ Miri/ASan lane)", "Well-formed heads are rendered from a structure and every prefix is offered to a fresh flow (all prefixes for heads <= 700 bytes and for every 3xx head cut after its Location line; token boundaries +-2 and windows otherwise; all prefixes in the thorough tier): strict prefixes must be need-more with nothing consumed, the full head (+ arbitrary tail) must be returned exactly (Flow, Call, bare parser, growing window); 126..200-field heads probe the limit. The PartialRedirect hook proves the fallback path was not taken. Thorough adds a Miri and an ASan lane over a slice.", "trusted: the head renderer; the harness never enables allow_partial_redirect", "6/C05"),
 "C06": (True, "exploration", "exhaustive decision-table monitor against an RFC 9112 reference rule", "The whole decision table is executed: 9 methods x statuses 101..=999 x response version x 11 Content-Length shapes x 8 Transfer-Encoding shapes through the Flow API (1.4 M real heads with a body in the expected framing and a following response), and a 14-status table through the Call API to separate no-body from zero-length. Outcomes are compared with an independent restatement of RFC 9112 6.3. Exhaustive within that table; cells the statement leaves open are don't-care.", "trusted: wire::body_rule (my reading of the statement); don't-care cells listed in the evidence assumptions", "6/C06"),
 "C07": (True, "exploration", "generator-known coding vs decoder output under enumerated cut sets; decoder-transition hooks for coverage", "Codings are rendered from a plan so payload, length and chunk map are known; every coding <= 14 (quick) / 18 (thorough) bytes of a tiny grammar is delivered under ALL cut sets x three output patterns x boundary stop on/off; grammar codings under every single cut and every pair of cuts within +-3 of each token boundary; random codings beyond. After every read: payload equality, no byte beyond the coding consumed (a next message follows), ended <=> final CRLF consumed, no read across two chunks with boundary stop. Floors require all seven decoder transitions (hook) and every token-class cut.", "assumes size lines <= 20 bytes (the crate's sanity limit); trusted: the coding renderer", "6/C07"),
 "C08": (True, "exploration", "reference min-of-three model over random read schedules with trailing bytes", "Content-Length bodies for N swept over 1..=70000 plus u32/u64 extremes, followed by the head of a next response, are read under random arrival and buffer schedules; each read must move exactly min(window, space, remaining) unchanged bytes, never beyond N, complete exactly at N. Close-delimited bodies: all bytes pass, can_proceed at every point, leaving leads to Cleanup with must-close.", "trusted: a counter model", "6/C08"),
 "C09": (True, "exploration", "typestate reference graph + hook invariant over random call histories with premature advances", "Random exchanges over the whole configuration menu are driven under schedules; visited states must equal the reference graph's path, the exchange must complete (C01's ground-truth checks), redirects are followed and the new flow used; then the same deterministic history is replayed to every step and an advance is attempted there: can_proceed() must equal proceed() succeeding, no panic; the in-crate hook asserts holder-variant/typestate agreement at every Flow::wrap. Floors require all 14 graph edges.", "trusted: exchange model; a redirected request that is refused because of an inherited Transfer-Encoding header is not judged (no given property pins it)", "6/C09"),
 "C10": (True, "exploration", "exhaustive close-condition product vs disjunction model", "All 32 close-condition vectors are realised by an exhaustive product of request version/Connection, Expect handshake outcome, response version/status/framing/Connection, each run as a complete exchange to Cleanup (through Redirect for 3xx), one-shot and under seeded random I/O schedules; verdict and reason at both exit states are compared with the disjunction. Floors require every vector on every feasible exit path.", "trusted: the exchange model (model.rs); reason texts are matched by keyword, unknown wording is not judged", "6/C10"),
 "C11": (True, "exploration", "handshake reference model over every look/give-up prefix, runs continued to completion", "Expect requests against servers whose first head is a bare 100 (seven reason phrases) or any other response (bare or with fields); the caller looks at a chosen prefix (every prefix class) and decides or gives up; every look is judged by the handshake model, and the run is continued to Cleanup under a random schedule: edge out of Await100, late 100 skipped exactly once by exactly its length, refusal returned as that very response, body sent iff not refused, must-close after refusal, plus C01's checks.", "100-with-fields not generated; verdict left open when the caller gives up while a refusal is partly visible", "6/C11"),
 "C12": (True, "fault_enumeration", "hostile byte enumeration + grammar mutations under panic/step-budget/copy-subsequence monitors (+ Miri/ASan lane)", "Fault enumeration: every string over an 11-symbol protocol alphabet up to length 5 (quick) / 6 (thorough) and every sequence of up to 3 / 4 protocol tokens into each server-facing call in each framing, whole and as growing window; every byte value at ten sensitive positions; grammar-aware mutations of valid exchanges (14 kinds incl. 64 KiB names, >128 fields, oversize numbers) under random schedules; five close conditions at once. Monitors: panic capture, loop tick budget per call (bounded 'hang'), count bounds, output is an in-order copy of consumed input, advancing afterwards does not panic. Thorough adds Miri and ASan lanes (dependency unsafe code reached by hostile bytes).", "caller follows the documented protocol; 'hang' = more than 4*(in+out)+64 loop iterations in one call", "6/C12"),
 "C13": (True, "exploration", "tagged-header provenance monitor over redirect chains", "Redirect chains of 1..4 hops with tagged Authorization/Cookie/Content-Length on the original request, Locations of every kind mixing three hosts, ports and http/https both ways, both policies, all redirect statuses; every redirected request is serialised and strictly parsed: original Cookie/Content-Length never present, original Authorization only if policy, original host and scheme rule allow (target from an independent RFC 3986 resolver). Floors require same-host/downgrade/upgrade/other-host cells at hops 1..4.", "only the 'present only if' direction is judged; lower-case hosts", "6/C13"),
 "C14": (True, "exploration", "independent RFC 3986 resolver as oracle over redirect chains", "Chains of 1..4 redirects over a grammar on which RFC 3986 and WHATWG agree; the new flow's URI is compared (after scheme-based normalisation) with an independent RFC 3986 section 5.2 resolver applied to the current hop's URI; last of several Location fields; fragment dropped; request line and Host checked on the wire at every hop; missing/non-textual Location must be an error; a hostile list gets the weak oracle (no panic, no foreign origin).", "strict oracle only on the clean grammar; resolver validated on the RFC 3986 5.4 examples (cargo test in harness)", "6/C14"),
 "C15": (True, "exploration", "exhaustive method x status table monitor", "The full table 9 methods x 300..=399 x 2 policies x 3 body shapes x request version is run as real exchanges; redirect-state entry, reported status, follow/not-follow and the new method are compared with the table of the statement. Exhaustive.", "trusted: wire::redirect_method restating the table", "6/C15"),
 "C16": (True, "exploration", "tagged-header wire monitor across redirect depth", "At redirect depth 0..3 under both policies, 0..60 tagged headers (cookie, authorization, connection, host, content-length where valid, ordinary names, non-UTF-8 values) are added in the prepare state at every depth while the original carries its own cookie/authorization/content-length; every request head is strictly parsed: each added pair on the wire, in order, ahead of the originals.", "restricted to requests C17 accepts", "6/C16"),
 "C17": (True, "exploration", "exhaustive request-validity product vs six-class model", "The product 5 versions x 9 methods x 5 Host shapes x 9 Content-Length shapes x 4 Transfer-Encoding shapes x despite x 3 APIs (48 600 cells) is written twice per cell and compared with the six-class model: reject = error twice and never ready, accept = bytes and ready. Exhaustive within the product.", "trusted: the six-class model; non-textual Host and without-body-constructor+framing-headers cells are don't-care", "6/C17"),
 "C18": (True, "exploration", "exhaustive sweep of n with a real write per n, strict decode of the wire",
         "For every n in 0..=3*10248+64 (enumerated) and random n up to 2^22 the advertised maximum is fed to a real write into an n-byte buffer; consumed must equal the advertised size, the bound and monotonicity are checked, the wire is strictly decoded.",
         "trusted: strict chunk decoder; fresh flow per n", "6/C18"),
 "C19": (True, "exploration", "exhaustive (L,n) sweep with fresh flows + bounded whole-body loops, loop-tick budget hook",
         "consumed(L,n) is measured for every n in 6..=300 x L in 1..=320, around multiples of the chunk size, and random pairs; progress, dominance over the advertised maximum and monotonicity in L are asserted; whole-body loops with fixed buffers must finish within |body| iterations (bounded restatement of termination), with the in-crate loop tick hook enforcing a per-call step budget.",
         "liveness restated as bounded progress; a stuck process is caught by the step budget, never by wall clock", "6/C19"),
 "C20": (True, "exploration", "round-trip oracle over every prefix for N in {0,1,4,128} (+ Miri/ASan lane)", "Request and response heads with 0..N+2 fields for N in {0,1,4,128} are rendered from a structure; complete parsers must round-trip (length, method/status, version, fields) within the limit, give HttpParseTooManyHeaders above it, and 'incomplete' on every strict prefix; the partial response parser must never fail on a prefix within the limit and only report fields whose whole line is inside the prefix, in order. Thorough adds Miri and ASan lanes.", "request target not checked (not part of the property)", "6/C20"),
}

def hook_commits():
    try:
        out = subprocess.check_output(["git", "-C", "/repo", "log", "--format=%H %s"], text=True)
        return [l.split()[0] for l in out.splitlines() if l.split(" ", 1)[1].startswith("verif-hooks")]
    except Exception:
        return []

checks, na = [], []
for pid in sorted(P):
    built, level, tech, text, note, ref = P[pid]
    if not built:
        na.append({"property_id": pid, "reason": "check not built yet (work in progress; DESIGN.md section %s describes the planned monitor)" % ref})
        continue
    checks.append({
        "property_id": pid,
        "quick_cmd": "./check %s quick" % pid,
        "thorough_cmd": "./check %s thorough" % pid,
        "evidence_file": "/verif/evidence/%s.json" % pid,
        "replay_cmd_template": "./check %s --replay {path}" % pid,
        "engine": "hootmon",
        "level_claimed": {"category": level, "text": text, "design_ref": "DESIGN.md section " + ref},
        "level_note": note,
        "technique": "runtime monitoring: " + tech,
    })

m = {
 "version": 1,
 "setup_cmd": "./setup.sh",
 "hooks": {
   "guard": "cargo feature verif-hooks (ureq-proto)",
   "enable": "the harness depends on ureq-proto by path (harness/.repo -> /repo) with features = [\"verif-hooks\"]; every ./check run does an incremental cargo build --release --offline of the working tree",
   "baseline_off_cmd": "cd /repo && cargo test --workspace --no-fail-fast --offline",
   "source_commits": hook_commits(),
   "add_only": True,
 },
 "engines": [{
   "name": "hootmon",
   "path": "/verif/harness",
   "serves_properties": [c["property_id"] for c in checks],
   "kind_free_text": "Rust harness: seeded/enumerated workloads drive the public API of the working tree under I/O segmentation schedules while reference-model oracles, in-crate hook monitors (typestate invariant, loop step budget, decoder-transition coverage) and panic capture watch every call; Miri and ASan lanes re-run slices that reach unsafe code in dependencies",
 }],
 "checks": checks,
 "not_applicable": na,
 "notes": "exit codes: 0 held on everything observed, 1 VIOLATION (replay file written), 2 inconclusive (build failure, watchdog, coverage floor not reached). VERIF_SEED selects the random streams; enumerated workloads do not depend on it. Known findings: /verif/KNOWN_FINDINGS.txt.",
}
json.dump(m, open(os.path.join(HERE, "MANIFEST.json"), "w"), indent=1)
print("claimed:", [c["property_id"] for c in checks])
