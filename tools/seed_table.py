#!/usr/bin/env python3
"""Regenerates the table of section 10 in DESIGN.md from seeded/*/meta.json and mutants/*/result.json."""
import glob, json, os, re
rows = []
rows.append("### Pinned tree (hooks-only) — every defect reported by the check of its property\n")
rows.append("| check | signatures reported on the pinned tree (quick tier) |\n|---|---|")
pinned = {
 "C01": "panic@client/holder.rs:70 (D7), C01/request-body-not-terminated (D2), C01/request-body-coding (D1), C01/exchange-did-not-complete (D5)",
 "C02": "C02/default-framing-missing (D8), C02/bytes-after-complete (D10), C02/header-sequence (D11)",
 "C03": "C03/terminator-on-nonempty-write (D1), C03/finished-without-terminator (D2), C03/bytes-emitted-after-finish (D3)",
 "C05": "C05/error-on-strict-prefix (D5; D6 is masked by D5 there and shown by revert-e438b3f below)",
 "C06": "C06/accepted/non-numeric-content-length (D13)",
 "C09": "panic@client/holder.rs:70 (D7), hook/typestate-invariant (D8), C09/response-fields (D6), C09/request-body-* (D1, D2)",
 "C10": "panic@client/holder.rs:70 (D7), C10/verdict-close-demanded-without-condition (D6), C10/exchange-did-not-complete (D5)",
 "C11": "panic@client/holder.rs:70 (D7), C11/response-fields (D6), C11/request-body-* (D1, D2)",
 "C12": "panic@parser.rs:64 and :122 (D14), panic@client/holder.rs:70/:77 (D7), hook/typestate-invariant (D8) (D12 is masked by D7 there; see revert-bce5a46)",
 "C16": "C16/added-header-missing/cookie, /authorization (D11)",
 "C17": "C17/invalid-request-written/version (D9), panic@body.rs:67 (D8+D10)",
 "C19": "C19/no-progress, C19/less-than-advertised-max (D4)",
 "C20": "C20/partial-error-on-prefix (D5)",
}
for k in sorted(pinned):
    rows.append("| %s | %s |" % (k, pinned[k]))
rows.append("\nC04, C07, C08, C13, C14, C15, C18 held on the pinned tree (no defect of theirs is known).\n")

rows.append("### Reverse patches of the `fix:` commits (mutants/revert-*), applied to the current tree\n")
rows.append("| mutant | own property | own check at the current commit (tools/reverify_seeds.py) | all checks that caught it when first recorded |\n|---|---|---|---|")
for d in sorted(glob.glob("/verif/mutants/revert-*")):
    r = os.path.join(d, "result.json")
    if os.path.exists(r):
        j = json.load(open(r)); m = json.load(open(os.path.join(d, "meta.json")))
        rv = j.get("reverified", {})
        rows.append("| %s | %s | %s (%s) at %s%s | %s |" % (os.path.basename(d), m.get("property"), rv.get("own_check", "-"), "; ".join(rv.get("signatures", [])[:2]), rv.get("repo_commit", "-"), (" - NOTE: " + m["note"]) if m.get("note") else "", ", ".join(sorted(j.get("caught_by", {}))) or "-"))

rows.append("\n### Hand-written mutants from the properties' hints (mutants/hint-*)\n")
rows.append("One textual replacement each (tools/make_hint_mutants.py). 'suite fails' = the existing tests already notice it, so it is not a change the checks are needed for (kept for the record). 'equivalent' = on inspection the change cannot alter anything a given property talks about.\n")
rows.append("| mutant | what | existing suite | caught by own check | all checks that caught it | note |\n|---|---|---|---|---|---|")
notes = {
 "hint-C03-chunk-crlf-dropped-when-exact": "equivalent: write_chunk sizes the chunk so that the CRLF always fits",
 "hint-C07-find-crlf-first-cr-only": "equivalent on valid codings (differs only for a bare CR inside an extension or trailer, which the grammar forbids); no panic or over-read on hostile input either",
 "hint-C10-has-key-only": "a five-letter Connection token other than close; caught after 'some other token' values were added to C10",
 "hint-C11-late-100-flag-not-cleared": "needs two late 100 responses; caught after C11 got the repeated-100 scenario",
 "hint-C12-sanity-check-removed": "equivalent for C12: no clause requires the limit, longer size lines still parse or error without panic",
 "hint-C14-fragment-kept": "deliberately harmless variant (fragment stripped before instead of after resolution): nothing must fire",
 "hint-C18-tail-lt": "equivalent: remaining == 8 gives tail 0 either way",
 "hint-C19-max-chunk-dropped": "equivalent for the properties: larger chunks are still a valid coding, fit and make progress",
 "hint-C01-dechunk-crlf-early": "invalid (suite fails); C07 reports it",
}
for d in sorted(glob.glob("/verif/mutants/hint-*")):
    r = os.path.join(d, "result.json")
    if not os.path.exists(r):
        continue
    j = json.load(open(r)); m = json.load(open(os.path.join(d, "meta.json")))
    ok = j.get("confirm", "").startswith("ok")
    rows.append("| %s | %s | %s | %s | %s | %s |" % (os.path.basename(d), m.get("summary", ""), "passes" if ok else "suite fails", "yes" if j.get("caught_by_own_property_check") else "no", ", ".join(sorted(j.get("caught_by", {}))) or "-", notes.get(os.path.basename(d), "")))

rows.append("\n### Independent seeded changes (seeded/), eighteen per property in ten rounds, and one more for ten properties in an eleventh\n")
rows.append("'when recorded' = with the harness and the commit of /repo of that time, all 20 quick checks; 're-measured' = own check only, by tools/reverify_seeds.py with the current harness at the commit named (patches that a later `fix:` commit moved under were rebased first; the original is kept as patch.at-<commit>.diff).\n")
rows.append("| seed | what it changes | needs | caught by own check when recorded | all checks that caught it when recorded | re-measured |\n|---|---|---|---|---|---|")
n = own = rown = retired = 0
for d in sorted(glob.glob("/verif/seeded/C*")):
    m = json.load(open(os.path.join(d, "meta.json")))
    cb = m.get("caught_by", {})
    def clean(t):
        return re.sub(r"\s+", " ", str(t)).replace("|", "/")[:230]
    rv = m.get("reverified", {})
    if m.get("retired"):
        retired += 1
        rem = "RETIRED: " + clean(m["retired"])
    else:
        n += 1
        own += 1 if m.get("caught_by_own_property_check") else 0
        rown += 1 if rv.get("own_check") == "caught" and rv.get("confirm", "").startswith("ok") else 0
        rem = "%s at %s (%s)" % (rv.get("own_check", "-"), rv.get("repo_commit", "-"), "; ".join(rv.get("signatures", [])[:2]))
        if m.get("not_own_note"):
            rem += " NOTE: " + clean(m["not_own_note"])
    rows.append("| %s | %s | %s | %s | %s | %s |" % (os.path.basename(d), clean(m.get("summary")), clean(m.get("needs_to_manifest")), "yes (%s)" % "; ".join(cb.get(m["property"], [])[:2]) if m.get("caught_by_own_property_check") else "NO", ", ".join(sorted(cb)), rem))
rows.append("\n%d seeded changes in use (+ %d retired because a repair of the tree neutralised it): %d were caught by the check of their own property when recorded, %d when re-measured against the current commit with the current harness; all confirmed by `tools/try_seed.sh` (compiles with and without hooks, unedited suite passes, demonstration fails with the change and passes without it).\n" % (n, retired, own, rown))
rows.append(open("/verif/tools/strengthened.md").read() if os.path.exists("/verif/tools/strengthened.md") else "")
s = open("/verif/DESIGN.md").read()
a = s.index("<!-- SEED-TABLE-BEGIN -->") + len("<!-- SEED-TABLE-BEGIN -->")
b = s.index("<!-- SEED-TABLE-END -->")
s = s[:a] + "\n" + "\n".join(rows) + "\n" + s[b:]
open("/verif/DESIGN.md", "w").write(s)
print("table written:", n, "seeds", own, "own-caught when recorded,", rown, "when re-measured,", retired, "retired")
