#!/bin/sh
# tools/try_seed.sh <dir-with-patch.diff-and-demo.rs> [check ids...]
# 1. confirms in a scratch worktree that the change compiles, passes the existing suite, and that the
#    demonstration fails with it and passes without it;
# 2. applies the change to /repo, runs the quick checks (the named ones, default: the property in meta.json
#    plus every other check), undoes the change straight afterwards;
# prints one line per check: <id> caught|missed|inconclusive, and a JSON summary on the last line.
set -u
D=$(cd "$1" && pwd); shift
HERE=$(cd "$(dirname "$0")/.." && pwd)
# TRY_REPO: the tree the patch is applied to for the checks (default /repo itself). Any other value must be a
# git worktree of /repo at the commit to test; it is then also used as the scratch tree for the confirmation,
# the checks run with VERIF_REPO pointing at it, and /repo is never touched (so this can run next to other work).
R=${TRY_REPO:-/repo}
W=/tmp/tryseed
[ "$R" = "/repo" ] || W="$R-confirm"
VD=/tmp/tryseed-verif
[ "$R" = "/repo" ] || VD="$R-verif"
PROP=$(python3 -c "import json,sys;print(json.load(open('$D/meta.json'))['property'])" 2>/dev/null || echo "")
cleanup() { git -C "$R" checkout -q -- . 2>/dev/null; }
trap cleanup EXIT INT TERM
if [ -n "$(git -C "$R" status --porcelain)" ]; then echo "try_seed: $R is not clean"; exit 2; fi
[ -d "$W" ] || git -C /repo worktree add -q --detach "$W" "$(git -C "$R" rev-parse HEAD)" || exit 2
git -C "$W" checkout -q --detach "$(git -C "$R" rev-parse HEAD)" && git -C "$W" checkout -q -- . && rm -f "$W/tests/demo.rs"
confirm=ok
if ! git -C "$W" apply "$D/patch.diff"; then echo "try_seed: patch does not apply"; exit 2; fi
( cd "$W" && cargo build --offline --features verif-hooks >/dev/null 2>&1 ) || confirm="does-not-compile-with-hooks"
suite=$( cd "$W" && cargo test --offline 2>&1 | grep -E "^test result" | tr '\n' ' ' )
echo "$suite" | grep -q "70 passed; 0 failed" || confirm="existing-suite-fails: $suite"
if [ -f "$D/demo.rs" ]; then
  mkdir -p "$W/tests"; cp "$D/demo.rs" "$W/tests/demo.rs"
  if ( cd "$W" && cargo test --offline --test demo >/dev/null 2>&1 ); then confirm="$confirm; demo-passes-with-change"; fi
  git -C "$W" checkout -q -- .
  if ! ( cd "$W" && cargo test --offline --test demo >/dev/null 2>&1 ); then confirm="$confirm; demo-fails-without-change"; fi
  rm -f "$W/tests/demo.rs"
else
  git -C "$W" checkout -q -- .
fi
echo "confirm: $confirm"
IDS="$*"
[ -n "$IDS" ] || IDS="C01 C02 C03 C04 C05 C06 C07 C08 C09 C10 C11 C12 C13 C14 C15 C16 C17 C18 C19 C20"
git -C "$R" apply "$D/patch.diff" || exit 2
# the scratch evidence directory knows the recorded findings too: a listed finding is not a catch
mkdir -p "$VD"; cp "$HERE/KNOWN_FINDINGS.txt" "$VD/KNOWN_FINDINGS.txt"
caught=""; missed=""; inconc=""
for id in $IDS; do
  out=$(VERIF_REPO="$R" VERIF_DIR="$VD" "$HERE/check" "$id" quick 2>&1); rc=$?
  sigs=$(echo "$out" | grep "signature:" | sed 's/ *signature: //' | tr '\n' ',' )
  case $rc in
    1) caught="$caught $id"; echo "$id caught [$sigs]" ;;
    0) missed="$missed $id"; [ "$id" = "$PROP" ] && echo "$id MISSED" ;;
    *) inconc="$inconc $id"; echo "$id inconclusive: $(echo "$out" | grep -E "INCONCLUSIVE" | head -2)" ;;
  esac
done
git -C "$R" checkout -q -- .
echo "SUMMARY property=$PROP confirm=[$confirm] caught=[$caught ] inconclusive=[$inconc ]"
