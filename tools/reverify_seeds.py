#!/usr/bin/env python3
"""Re-measure seeded/<id>/ (and mutants/<name>/) against the CURRENT commit of /repo and the current
harness, own-property check only: tools/try_seed.sh <dir> <property> re-confirms the change (compiles,
suite passes, demonstration fails with it and passes without it) and runs the quick check of the
property with the patch applied. The outcome is stored in meta.json / result.json under "reverified".
usage: reverify_seeds.py [names...]        (default: every directory under seeded/ and mutants/)"""
import glob, json, os, re, subprocess, sys
names = sys.argv[1:]
REPO = os.environ.get("TRY_REPO", "/repo")
commit = subprocess.run(["git", "-C", REPO, "rev-parse", "--short", "HEAD"], capture_output=True, text=True).stdout.strip()
bad = []
for d in sorted(glob.glob("/verif/seeded/*")) + sorted(glob.glob("/verif/mutants/*")):
    name = os.path.basename(d)
    if names and name not in names:
        continue
    metaf = os.path.join(d, "meta.json")
    meta = json.load(open(metaf))
    prop = meta["property"]
    if subprocess.run(["git", "-C", REPO, "apply", "--check", os.path.join(d, "patch.diff")], capture_output=True).returncode != 0:
        print(name, "PATCH-DOES-NOT-APPLY", flush=True)
        bad.append(name)
        continue
    out = subprocess.run(["/verif/tools/try_seed.sh", d, prop], capture_output=True, text=True).stdout
    confirm = re.search(r"^confirm: (.*)$", out, re.M)
    m = re.search(r"^%s caught \[(.*)\]$" % prop, out, re.M)
    sigs = [s for s in m.group(1).split(",") if s] if m else []
    rv = {"repo_commit": commit, "confirm": confirm.group(1) if confirm else "?", "own_check": "caught" if m else ("inconclusive" if re.search(r"^%s inconclusive" % prop, out, re.M) else "missed"), "signatures": sigs}
    target = metaf if d.startswith("/verif/seeded") else os.path.join(d, "result.json")
    j = json.load(open(target)) if os.path.exists(target) else {}
    j["reverified"] = rv
    json.dump(j, open(target, "w"), indent=1)
    print(name, rv["confirm"], rv["own_check"], sigs[:3], flush=True)
    if rv["own_check"] != "caught" or not rv["confirm"].startswith("ok"):
        bad.append(name)
print("NOT-OK:", bad)
