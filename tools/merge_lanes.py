#!/usr/bin/env python3
"""Summarise the Miri / ASan lane logs into evidence/<ID>.json (coverage.lanes) and decide the lane verdict."""
import glob, json, os, re, sys
pid, out, miri_status, asan_status, wall = sys.argv[1:6]
here = os.path.dirname(os.path.dirname(os.path.abspath(__file__)))
rc = 0
miri = {"status": miri_status, "processes": 0, "cases": 0, "api_calls_interpreted": 0, "monitor_violations": 0, "ub_reports": 0, "workloads": {}}
lines_out = []
for f in sorted(glob.glob(os.path.join(out, "miri-*-*.log"))):
    txt = open(f, errors="replace").read()
    miri["processes"] += 1
    m = re.search(r"LANE-SUMMARY property=\S+ workload=(\S+) start=(\d+) count=(\d+) stride=(\d+) seed=\d+ api_calls=(\d+) violations=(\d+)", txt)
    rcm = re.search(r"rc=(\d+)", txt)
    code = int(rcm.group(1)) if rcm else -1
    if m:
        wl = m.group(1)
        miri["cases"] += int(m.group(3))
        miri["api_calls_interpreted"] += int(m.group(5))
        miri["monitor_violations"] += int(m.group(6))
        w = miri["workloads"].setdefault(wl, {"cases": 0, "api_calls": 0})
        w["cases"] += int(m.group(3)); w["api_calls"] += int(m.group(5))
    ub = "Undefined Behavior" in txt or "error: unsupported operation" in txt and "LANE-SUMMARY" not in txt
    if "Undefined Behavior" in txt:
        miri["ub_reports"] += 1
        lines_out.append("VIOLATION property=%s replay=%s" % (pid, f))
        lines_out.append("  signature: miri/undefined-behaviour")
        rc = 1
    for v in re.findall(r"LANE-VIOLATION (.*)", txt):
        lines_out.append("VIOLATION property=%s replay=%s" % (pid, f))
        lines_out.append("  " + v[:400])
        rc = 1
    if not m and code != 0 and "Undefined Behavior" not in txt:
        # timeout (124) or interpreter trouble: inconclusive, never a violation
        miri["status"] = "inconclusive"
asan = {"status": asan_status, "reports": 0}
p = os.path.join(out, "asan-run.log")
if os.path.exists(p):
    txt = open(p, errors="replace").read()
    asan["reports"] = txt.count("ERROR: AddressSanitizer")
    m = re.search(r"cases=(\d+) api_calls=(\d+)", txt)
    if m:
        asan["cases"] = int(m.group(1)); asan["api_calls"] = int(m.group(2))
    rcm = re.search(r"rc=(\d+)", txt)
    code = int(rcm.group(1)) if rcm else -1
    asan["exit_code"] = code
    if asan["reports"] > 0 or code == 66:
        lines_out.append("VIOLATION property=%s replay=%s" % (pid, p))
        lines_out.append("  signature: asan/report")
        rc = 1
    elif code == 1:
        for l in txt.splitlines():
            if l.startswith("VIOLATION") or l.startswith("  signature") or l.startswith("  what"):
                lines_out.append(l)
        rc = 1
    elif code != 0:
        asan["status"] = "inconclusive"
ev_path = os.path.join(here, "evidence", pid + ".json")
try:
    ev = json.load(open(ev_path))
    ev["coverage"]["lanes"] = {"miri": miri, "asan": asan, "wall_s": int(wall),
        "why": "hostile server bytes reach unsafe code in httparse / http / url through this crate; ureq-proto itself forbids unsafe"}
    if rc == 1:
        ev["violations"] = ev.get("violations", 0) + 1
        ev["verdict"] = "violated"
    json.dump(ev, open(ev_path, "w"), indent=1)
except Exception as e:
    print("lanes: cannot update evidence:", e)
for l in lines_out:
    print(l)
print("%s lanes: miri %s (%d processes, %d cases, %d interpreted api calls, %d UB reports) asan %s (%s reports) wall=%ss" % (
    pid, miri["status"], miri["processes"], miri["cases"], miri["api_calls_interpreted"], miri["ub_reports"], asan["status"], asan["reports"], wall))
if rc == 0 and (miri["status"] != "clean" or asan["status"] != "clean"):
    print("INCONCLUSIVE property=%s a sanitizer lane did not complete (not a violation)" % pid)
    rc = 2
sys.exit(rc)
