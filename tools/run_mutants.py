#!/usr/bin/env python3
"""Run every mutants/<name>/patch.diff (or the named ones) through tools/try_seed.sh and store result.json."""
import glob, json, os, re, subprocess, sys
names = sys.argv[1:]
for d in sorted(glob.glob("/verif/mutants/*")):
    if names and os.path.basename(d) not in names and not any(os.path.basename(d).startswith(n) for n in names):
        continue
    out = subprocess.run(["/verif/tools/try_seed.sh", d], capture_output=True, text=True).stdout
    confirm = re.search(r"^confirm: (.*)$", out, re.M)
    caught = {}
    for m in re.finditer(r"^(C\d+) caught \[(.*)\]$", out, re.M):
        caught[m.group(1)] = [s for s in m.group(2).split(",") if s]
    inconc = re.findall(r"^(C\d+) inconclusive", out, re.M)
    meta = json.load(open(os.path.join(d, "meta.json")))
    res = {"property": meta["property"], "confirm": confirm.group(1) if confirm else "patch does not apply", "applies": confirm is not None,
           "caught_by": caught, "inconclusive": inconc, "caught_by_own_property_check": meta["property"] in caught}
    json.dump(res, open(os.path.join(d, "result.json"), "w"), indent=1)
    print(os.path.basename(d), "confirm=", res["confirm"], "caught_by=", sorted(caught), "inconclusive=", inconc, "own=", res["caught_by_own_property_check"], flush=True)
